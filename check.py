#!/usr/bin/env python3
"""Entry point: see driver.py (python3 check.py <ID> --tier quick|thorough | --replay <file> | --setup)."""
import sys
import driver

if __name__ == "__main__":
    sys.exit(driver.main())
