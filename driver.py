#!/usr/bin/env python3
"""Driver of the runtime monitors for markschl/seq_io (see DESIGN.md).

  check.py --setup                              build everything once (offline)
  check.py <ID> --tier quick|thorough [--seed N]
  check.py <ID> --replay <file>

Exit codes: 0 = held on everything explored, 1 = violated (prints
`VIOLATION property=<id> replay=<path>`), 2 = inconclusive (prints
`INCONCLUSIVE property=<id> reason=...`).
"""
import hashlib
import json
import re
import os
import shutil
import subprocess
import sys
import time
from concurrent.futures import ThreadPoolExecutor

ROOT = os.path.dirname(os.path.abspath(__file__))
HARNESS = os.path.join(ROOT, "harness")
# the repository under test; VERIF_REPO lets a background exploration run use a snapshot
# (the registered checks always run against /repo itself)
REPO = os.environ.get("VERIF_REPO") or "/repo"
# VERIF_EVIDENCE_DIR: used by the seeded-change tooling so that runs against a deliberately broken
# tree never overwrite the evidence of /repo itself
EVID = os.environ.get("VERIF_EVIDENCE_DIR") or os.path.join(ROOT, "evidence")
REPLAYS = os.path.join(ROOT, "replays")
KNOWN = os.path.join(ROOT, "known_findings.json")
NSHARDS = max(1, min(16, os.cpu_count() or 1))

ENV = dict(os.environ)
ENV["CARGO_NET_OFFLINE"] = "true"
ENV.setdefault("CARGO_TERM_COLOR", "never")

from props import PROPS  # noqa: E402  (per-property tables)


def log(*a):
    print(*a, file=sys.stderr, flush=True)


# --------------------------------------------------------------------------- build

def sync_lock():
    src = os.path.join(REPO, "Cargo.lock")
    dst = os.path.join(HARNESS, "Cargo.lock")
    if not os.path.exists(dst) and os.path.exists(src):
        shutil.copyfile(src, dst)
    # the path dependency of the harness crate points at REPO
    toml = os.path.join(HARNESS, "Cargo.toml")
    with open(toml) as f:
        text = f.read()
    want = 'seq_io = { path = "%s", features = ["verif_hooks"] }' % REPO
    lines = [want if l.startswith("seq_io = {") else l for l in text.splitlines()]
    new = "\n".join(lines) + "\n"
    if new != text:
        with open(toml, "w") as f:
            f.write(new)


def cargo(args, target_dir=None, env_extra=None, toolchain=None, timeout=1800):
    env = dict(ENV)
    if target_dir:
        env["CARGO_TARGET_DIR"] = os.path.join(HARNESS, target_dir)
    if env_extra:
        env.update(env_extra)
    cmd = ["cargo"] + ([toolchain] if toolchain else []) + args
    t0 = time.time()
    p = subprocess.run(cmd, cwd=HARNESS, env=env, stdout=subprocess.PIPE,
                       stderr=subprocess.STDOUT, text=True, timeout=timeout)
    return p.returncode, p.stdout, time.time() - t0


def build_native():
    sync_lock()
    rc, out, dt = cargo(["build", "--release", "--offline", "--bins"])
    if rc != 0:
        log(out[-4000:])
    return rc == 0, out, dt


def build_debug():
    sync_lock()
    rc, out, dt = cargo(["build", "--offline", "--bins"])
    if rc != 0:
        log(out[-4000:])
    return rc == 0, out, dt


MIRI_FLAGS = "-Zmiri-disable-isolation -Zmiri-ignore-leaks"


def miri_cmd(binname, args, seed=None, extra_flags=""):
    flags = MIRI_FLAGS + (" -Zmiri-seed=%d" % seed if seed is not None else "") + (" " + extra_flags if extra_flags else "")
    env = {"MIRIFLAGS": flags, "CARGO_TARGET_DIR": os.path.join(HARNESS, "target-miri")}
    cmd = ["cargo", "+nightly", "miri", "run", "--offline", "-q", "--bin", binname, "--"] + args
    return cmd, env


def build_miri():
    sync_lock()
    env = dict(ENV)
    env["CARGO_TARGET_DIR"] = os.path.join(HARNESS, "target-miri")
    env["MIRIFLAGS"] = MIRI_FLAGS
    # `miri run` of a trivial invocation builds everything
    p = subprocess.run(["cargo", "+nightly", "miri", "run", "--offline", "-q", "--bin", "mon", "--", "NONE"],
                       cwd=HARNESS, env=env, stdout=subprocess.PIPE, stderr=subprocess.STDOUT, text=True, timeout=1800)
    ok = "unknown property" in p.stdout or p.returncode in (0, 3)
    if not ok:
        log(p.stdout[-4000:])
    return ok, p.stdout


# --------------------------------------------------------------------------- shards

def run_proc(cmd, env_extra, timeout, cwd=HARNESS):
    env = dict(ENV)
    if env_extra:
        env.update(env_extra)
    t0 = time.time()
    try:
        p = subprocess.run(cmd, cwd=cwd, env=env, stdout=subprocess.PIPE, stderr=subprocess.PIPE,
                           text=True, timeout=timeout)
        return {"rc": p.returncode, "out": p.stdout, "err": p.stderr, "dt": time.time() - t0, "timeout": False}
    except subprocess.TimeoutExpired as e:
        out = e.stdout.decode() if isinstance(e.stdout, bytes) else (e.stdout or "")
        err = e.stderr.decode() if isinstance(e.stderr, bytes) else (e.stderr or "")
        return {"rc": None, "out": out, "err": err, "dt": time.time() - t0, "timeout": True}


def parse_report(out):
    for line in out.splitlines():
        if line.startswith("VERIF-REPORT "):
            try:
                return json.loads(line[len("VERIF-REPORT "):])
            except Exception:
                return None
    return None


MAX_KEYS = ("largest_", "max_", "exhaustive_length", "shard_wall_ms")
MIN_KEYS = ("exhaustive_complete",)


def merge_reports(reports):
    m = {"evaluations": 0, "distinct_nontrivial": 0, "counters": {}, "maps": {}, "samples": [],
         "violations": [], "n_violations": 0, "inconclusive": [], "notes": []}
    for r in reports:
        m["evaluations"] += r.get("evaluations", 0)
        m["distinct_nontrivial"] += r.get("distinct_nontrivial", 0)
        m["n_violations"] += r.get("n_violations", 0)
        for k, v in r.get("counters", {}).items():
            if k.startswith(MAX_KEYS):
                m["counters"][k] = max(m["counters"].get(k, 0), v)
            elif k.startswith(MIN_KEYS):
                m["counters"][k] = min(m["counters"].get(k, v), v)
            else:
                m["counters"][k] = m["counters"].get(k, 0) + v
        for name, mp in r.get("maps", {}).items():
            d = m["maps"].setdefault(name, {})
            for k, v in mp.items():
                d[k] = d.get(k, 0) + v
        m["violations"].extend(r.get("violations", []))
        m["inconclusive"].extend(r.get("inconclusive", []))
        for n in r.get("notes", []):
            if n not in m["notes"] and len(m["notes"]) < 20:
                m["notes"].append(n)
    # samples: round-robin over shards, at most 8
    pools = [list(r.get("samples", [])) for r in reports]
    while len(m["samples"]) < 8 and any(pools):
        for p in pools:
            if p and len(m["samples"]) < 8:
                m["samples"].append(p.pop(0))
    return m


def run_native_shards(binname, prop, tier, seed, budget, extra_args=None, nshards=NSHARDS, profile="release"):
    exe = os.path.join(HARNESS, "target", profile, binname)
    cmds = []
    for i in range(nshards):
        cmd = [exe, prop, "--tier", tier, "--seed", str(seed), "--shard", "%d/%d" % (i, nshards),
               "--budget-s", str(budget)] + (extra_args or [])
        cmds.append(cmd)
    wd = budget * 10 + 120
    with ThreadPoolExecutor(max_workers=nshards) as ex:
        results = list(ex.map(lambda c: run_proc(c, None, wd), cmds))
    reports, problems = [], []
    crashed = []
    for i, r in enumerate(results):
        rep = parse_report(r["out"])
        if r["timeout"]:
            problems.append("shard %d: watchdog fired after %.0f s" % (i, r["dt"]))
        elif rep is None and crash_signal(r) is not None:
            crashed.append((i, r))
        elif rep is None:
            problems.append("shard %d: no report (rc=%s) stderr tail: %s" % (i, r["rc"], r["err"][-600:]))
        if rep is not None:
            reports.append(rep)
    if crashed:
        # the process died from a memory-error signal: not a harness failure (the harness has no unsafe
        # code apart from the counting allocator's forwarding calls) but memory corruption in the code
        # under test. The first crashed shards are run again announcing every case, which names the case.
        for i, r in crashed[:2]:
            what = crash_signal(r)
            r2 = run_proc(cmds[i], {"VERIF_TRACE_CASES": "1"}, wd)
            last = None
            for line in r2["err"].splitlines():
                if line.startswith("VERIF-CASE "):
                    last = int(line.split()[1])
            again = crash_signal(r2)
            if again is None or last is None:
                problems.append("shard %d died from %s; the traced re-run did not (rc=%s)" % (i, what, r2["rc"]))
                continue
            reports.append({"violations": [{
                "property": prop, "sig": "crash-" + again.split()[0].lower(),
                "what": "the shard process died from %s while running case %d (again in a second run: %s); stderr: %s" % (
                    what, last, again, r2["err"][-300:].replace("VERIF-CASE", "case")),
                "replay": {"property": prop, "tier": tier, "seed": seed, "shard": i, "nshards": nshards, "index": last,
                           "extra_args": extra_args or [], "crash": True}}],
                "n_violations": 1, "maps": {"violation_signatures": {"crash-" + again.split()[0].lower(): 1}}})
        for i, r in crashed[2:]:
            problems.append("shard %d: died from %s (see the crash violation of the first shards)" % (i, crash_signal(r)))
    return reports, problems


HEAP_MSGS = ("corrupted", "double free", "malloc():", "free():", "munmap_chunk", "invalid pointer", "invalid size",
             "stack smashing", "malloc_consolidate", "realloc():")


def crash_signal(r):
    """names the memory-error signal a process died from, or None (out-of-memory aborts, kills and harness exits are None)"""
    rc = r.get("rc")
    if rc is None:
        return None
    names = {-11: "SIGSEGV", -7: "SIGBUS", -4: "SIGILL"}
    if rc in names:
        return names[rc] + " (rc=%d)" % rc
    if rc == 101:
        # a Rust panic that ended the process. Panics inside monitored calls are caught and reported by the
        # monitors; one that escapes is a harness failure - unless it was raised inside the code under test
        # (the harness called it at a place it did not guard): then it is that code's panic
        tail = r.get("err", "")[-30000:]
        m = re.search(r"panicked at (%s/src/[^\s:]+):(\d+)" % re.escape(REPO), tail)
        if m:
            return "PANIC in the code under test at %s:%s (outside a guarded call of the harness)" % (m.group(1), m.group(2))
    if rc == -6:
        tail = r.get("err", "")[-2000:]
        if "memory allocation of" in tail:
            return None  # allocation failure: inconclusive
        if any(m in tail for m in HEAP_MSGS):
            return "SIGABRT after a heap-corruption report of the allocator (%s)" % next(m for m in HEAP_MSGS if m in tail)
    return None


# --------------------------------------------------------------------------- known findings

def load_known():
    if not os.path.exists(KNOWN):
        return []
    with open(KNOWN) as f:
        return json.load(f).get("findings", [])


def write_replay(prop, v):
    os.makedirs(REPLAYS, exist_ok=True)
    h = hashlib.sha1(json.dumps(v, sort_keys=True).encode()).hexdigest()[:12]
    path = os.path.join(REPLAYS, "%s-%s.json" % (prop, h))
    with open(path, "w") as f:
        json.dump(v, f, indent=1, sort_keys=True)
    return path


# --------------------------------------------------------------------------- main check

def finish(prop, tier, seed, level, merged, problems, t0, cfg, extra_cov=None):
    """applies known findings and coverage floors, writes evidence, prints verdict lines, returns exit code"""
    known = [k for k in load_known() if k.get("property") == prop and k.get("status") == "known"]
    new_viol, known_hits = [], {}
    for v in merged["violations"]:
        hit = next((k for k in known if k.get("signature") == v.get("sig")), None)
        if hit:
            known_hits.setdefault(hit["signature"], hit)
        else:
            new_viol.append(v)
    # violations that were counted but whose records were dropped (more than the stored sample)
    sigs = merged["maps"].get("violation_signatures", {})
    unknown_sigs = [s for s in sigs if not any(k.get("signature") == s for k in known)]

    floors_failed = []
    for key, minimum in cfg.get("floors", {}).items():
        if "/" in key:
            mp, k = key.split("/", 1)
            have = merged["maps"].get(mp, {}).get(k, 0)
        else:
            have = merged["counters"].get(key, merged.get(key, 0))
        if have < minimum:
            floors_failed.append("%s=%s<%s" % (key, have, minimum))
    # soft floors: indicators that depend on how the current implementation behaves (e.g. "the in-buffer
    # seek shortcut was taken"); a property-preserving implementation may legitimately never show them,
    # so an unmet soft floor is reported (stdout NOTE + evidence) but does not change the verdict
    soft_unmet = []
    for key, minimum in cfg.get("soft_floors", {}).items():
        if "/" in key:
            mp, k = key.split("/", 1)
            have = merged["maps"].get(mp, {}).get(k, 0)
        else:
            have = merged["counters"].get(key, merged.get(key, 0))
        if have < minimum:
            soft_unmet.append("%s=%s<%s" % (key, have, minimum))
    if merged["distinct_nontrivial"] < 2:
        floors_failed.append("distinct_nontrivial=%d<2" % merged["distinct_nontrivial"])

    coverage = {
        "evaluations": max(1, merged["evaluations"]),
        "distinct_nontrivial": merged["distinct_nontrivial"],
        "rule": cfg["rule"],
        "samples": merged["samples"] or [{"note": "no sample recorded"}],
        "counters": merged["counters"],
        "maps": {k: v for k, v in merged["maps"].items()},
        "shards": NSHARDS,
        "coverage_floors": cfg.get("floors", {}),
        "coverage_floors_failed": floors_failed,
        "implementation_indicators": cfg.get("soft_floors", {}),
        "implementation_indicators_unmet": soft_unmet,
        "harness_problems": problems,
        "notes": merged["notes"],
        "exhaustive": bool(merged["counters"].get("exhaustive_complete", 0)) and cfg.get("exhaustive_part", False),
    }
    if extra_cov:
        coverage.update(extra_cov)
    n_new = len(new_viol) if new_viol else (1 if unknown_sigs and merged["n_violations"] > 0 else 0)
    ev = {
        "property_id": prop,
        "tier": tier,
        "seed": seed,
        "level": level,
        "coverage": coverage,
        "assumptions": cfg.get("assumptions", []),
        "wall_s": round(time.time() - t0, 2),
        "violations": merged["n_violations"] if n_new else 0,
    }
    os.makedirs(EVID, exist_ok=True)
    with open(os.path.join(EVID, prop + ".json"), "w") as f:
        json.dump(ev, f, indent=1, sort_keys=True)

    for sf in soft_unmet:
        print("NOTE property=%s implementation-dependent coverage indicator below its usual value: %s (verdict unaffected)" % (prop, sf))
    for sig, k in known_hits.items():
        print("KNOWN-FINDING: property=%s %s (%s)" % (prop, k.get("what", ""), sig))
    if new_viol:
        seen = set()
        for v in new_viol:
            if v["sig"] in seen:
                continue
            seen.add(v["sig"])
            path = write_replay(prop, v)
            print("VIOLATION property=%s replay=%s" % (prop, path))
            print("  signature: %s" % v["sig"])
            print("  what: %s" % v["what"][:1500])
        return 1
    if problems or floors_failed or merged["inconclusive"]:
        reason = "; ".join(problems + floors_failed + merged["inconclusive"])[:1500]
        print("INCONCLUSIVE property=%s reason=%s" % (prop, reason.replace("\n", " ")))
        return 2
    print("OK property=%s tier=%s seed=%d evaluations=%d distinct_nontrivial=%d wall_s=%.1f" % (
        prop, tier, seed, merged["evaluations"], merged["distinct_nontrivial"], time.time() - t0))
    return 0


def check(prop, tier, seed):
    t0 = time.time()
    cfg = PROPS[prop]
    ok, out, dt = build_native()
    if not ok:
        print("INCONCLUSIVE property=%s reason=harness does not build against /repo (see stderr)" % prop)
        return 2
    budget = cfg[tier]
    return run_tiers(prop, tier, seed, budget, cfg, t0)


def replay(prop, path):
    with open(path) as f:
        v = json.load(f)
    r = v.get("replay", v)
    ok, out, dt = build_native()
    if not ok:
        print("INCONCLUSIVE property=%s reason=harness does not build" % prop)
        return 2
    cfg = PROPS[prop]
    return replay_case(prop, r, cfg)


def run_tiers(prop, tier, seed, budget, cfg, t0):
    reports, problems = run_native_shards(cfg["bin"], prop, tier, seed, budget)
    merged = merge_reports(reports)
    extra = {}
    level = cfg["level"]
    # interpreter / sanitizer tiers re-run a slice of the same workload
    if cfg.get("miri") and (tier == "thorough" or cfg["miri"].get("quick_procs", 0) > 0):
        mr, mp, info = run_miri_slice(prop, tier, seed, cfg)
        extra["miri"] = info
        problems += mp
        if mr:
            mm = merge_reports(mr)
            merged["violations"].extend(mm["violations"])
            merged["n_violations"] += mm["n_violations"]
            for k, v in mm["maps"].get("violation_signatures", {}).items():
                d = merged["maps"].setdefault("violation_signatures", {})
                d[k] = d.get(k, 0) + v
    if cfg.get("memory_mode"):
        mr, mp = run_native_shards(cfg["bin"], prop, tier, seed, 60, extra_args=["--mode", "memory"])
        problems += mp
        mm = merge_reports(mr)
        merged["evaluations"] += mm["evaluations"]
        merged["distinct_nontrivial"] += mm["distinct_nontrivial"]
        merged["violations"].extend(mm["violations"])
        merged["n_violations"] += mm["n_violations"]
        merged["inconclusive"].extend(mm["inconclusive"])
        merged["samples"] = mm["samples"][:3] + merged["samples"][:5]
        for k, v in mm["counters"].items():
            if k.startswith(MAX_KEYS):
                merged["counters"][k] = max(merged["counters"].get(k, 0), v)
            elif k != "distinct_interleaving_fingerprints":
                merged["counters"][k] = merged["counters"].get(k, 0) + v
        for name, mp in mm["maps"].items():
            d = merged["maps"].setdefault(name, {})
            for k, v in mp.items():
                d[k] = d.get(k, 0) + v
    if tier == "thorough" and cfg.get("tsan"):
        info, viol, tp = run_tsan_slice(prop, seed, cfg)
        extra["tsan"] = info
        problems += tp
        for v in viol:
            merged["violations"].append(v)
            merged["n_violations"] += 1
    if tier == "thorough" and cfg.get("asan"):
        info, viol, ap = run_asan_slice(prop, seed, cfg)
        extra["asan"] = info
        problems += ap
        for v in viol:
            merged["violations"].append(v)
            merged["n_violations"] += 1
    if tier == "thorough" and cfg.get("debug_build"):
        ok, out, dt = build_debug()
        if ok:
            dr, dp = run_native_shards(cfg["bin"], prop, tier, seed + 1000, max(5, budget // 6), profile="debug")
            dm = merge_reports(dr)
            extra["debug_build"] = {"evaluations": dm["evaluations"], "violations": dm["n_violations"]}
            merged["violations"].extend(dm["violations"])
            merged["n_violations"] += dm["n_violations"]
            merged["evaluations"] += dm["evaluations"]
            problems += dp
        else:
            problems.append("debug build failed")
    return finish(prop, tier, seed, level, merged, problems, t0, cfg, extra)


def run_miri_slice(prop, tier, seed, cfg):
    """runs `mon`/`par` under Miri: several short processes in parallel"""
    m = cfg["miri"]
    n = m["thorough_procs"] if tier == "thorough" else m["quick_procs"]
    cases = m["thorough_cases"] if tier == "thorough" else m["quick_cases"]
    ok, out = build_miri()
    if not ok:
        return [], ["miri build failed"], {"ran": False}
    jobs = []
    for i in range(n):
        args = [prop, "--tier", tier, "--seed", str(seed), "--shard", "%d/%d" % (i, n),
                "--budget-s", "100000", "--cases", str(cases)] + m.get("args", [])
        flags = m.get("flags", "")
        if m.get("seeds"):
            flags += " -Zmiri-preemption-rate=%s" % ("0.1" if i % 2 else "0.01")
        cmd, env = miri_cmd(cfg["bin"], args, seed=seed * 1000 + i, extra_flags=flags)
        jobs.append((cmd, env))
    timeout = m.get("timeout", 1500)
    tm0 = time.time()
    with ThreadPoolExecutor(max_workers=NSHARDS) as ex:
        results = list(ex.map(lambda j: run_proc(j[0], j[1], timeout), jobs))
    reports, problems = [], []
    ub = []
    for i, r in enumerate(results):
        rep = parse_report(r["out"])
        if "Undefined Behavior" in r["err"] or "error: unsupported operation" in r["err"] or "deadlock" in r["err"]:
            ub.append(r["err"][-3000:])
        if r["timeout"]:
            problems.append("miri proc %d: watchdog" % i)
        elif rep is None and not ub:
            problems.append("miri proc %d: no report rc=%s: %s" % (i, r["rc"], r["err"][-500:]))
        if rep is not None:
            reports.append(rep)
    info = {"ran": True, "processes": n, "cases_per_process": cases,
            "miri_seeds": [seed * 1000 + i for i in range(n)],
            "evaluations": sum(r.get("evaluations", 0) for r in reports),
            "undefined_behaviour_reports": len(ub), "wall_s": round(time.time() - tm0, 1)}
    for u in ub:
        reports.append({"violations": [{"property": prop, "sig": "miri-report",
                                        "what": "Miri reported: " + u[-1500:],
                                        "replay": {"property": prop, "miri": True, "stderr": u}}],
                        "n_violations": 1, "maps": {"violation_signatures": {"miri-report": 1}}})
    return reports, problems, info


def run_asan_slice(prop, seed, cfg):
    """thorough only: the native workload rebuilt with AddressSanitizer"""
    a = cfg["asan"]
    env = {"RUSTFLAGS": "-Zsanitizer=address -Cforce-frame-pointers=yes",
           "CARGO_TARGET_DIR": os.path.join(HARNESS, "target-asan")}
    sync_lock()
    p = run_proc(["cargo", "+nightly", "build", "--release", "--offline", "--bins",
                  "--target", "x86_64-unknown-linux-gnu"], env, 1800)
    if p["rc"] != 0:
        return {"ran": False, "reason": "asan build failed"}, [], ["asan build failed: " + (p["err"][-800:])]
    exe = os.path.join(HARNESS, "target-asan", "x86_64-unknown-linux-gnu", "release", cfg["bin"])
    n = NSHARDS
    budget = a.get("budget", 40)
    cmds = [[exe, prop, "--tier", "thorough", "--seed", str(seed + 500), "--shard", "%d/%d" % (i, n),
             "--budget-s", str(budget)] for i in range(n)]
    envx = {"ASAN_OPTIONS": "halt_on_error=1:abort_on_error=0:detect_leaks=1:exitcode=77"}
    with ThreadPoolExecutor(max_workers=n) as ex:
        results = list(ex.map(lambda c: run_proc(c, envx, budget * 10 + 120), cmds))
    viol, problems, evals = [], [], 0
    for i, r in enumerate(results):
        rep = parse_report(r["out"])
        if rep:
            evals += rep.get("evaluations", 0)
            viol.extend(rep.get("violations", []))
        if "AddressSanitizer" in r["err"] or "LeakSanitizer" in r["err"]:
            first = next((l for l in r["err"].splitlines() if "Sanitizer" in l), "sanitizer report")
            viol.append({"property": prop, "sig": "asan-report", "what": first + " :: " + r["err"][-1500:],
                         "replay": {"property": prop, "asan": True, "stderr": r["err"][-4000:]}})
        elif rep is None:
            problems.append("asan shard %d: no report rc=%s" % (i, r["rc"]))
    return {"ran": True, "evaluations": evals, "shards": n, "reports": len([v for v in viol if v["sig"] == "asan-report"])}, viol, problems


def run_tsan_slice(prop, seed, cfg):
    """thorough only: the native pipeline stress rebuilt with ThreadSanitizer (-Zbuild-std)"""
    t = cfg["tsan"]
    env = {"RUSTFLAGS": "-Zsanitizer=thread", "CARGO_TARGET_DIR": os.path.join(HARNESS, "target-tsan")}
    sync_lock()
    p = run_proc(["cargo", "+nightly", "build", "--release", "--offline", "-Zbuild-std",
                  "--target", "x86_64-unknown-linux-gnu", "--bin", cfg["bin"]], env, 3000)
    if p["rc"] != 0:
        return {"ran": False, "reason": "tsan build failed"}, [], ["tsan build failed: " + p["err"][-800:]]
    exe = os.path.join(HARNESS, "target-tsan", "x86_64-unknown-linux-gnu", "release", cfg["bin"])
    n = NSHARDS
    budget = t.get("budget", 40)
    cmds = [[exe, prop, "--tier", "thorough", "--seed", str(seed + 700), "--shard", "%d/%d" % (i, n),
             "--budget-s", str(budget)] for i in range(n)]
    envx = {"TSAN_OPTIONS": "halt_on_error=0 exitcode=0 second_deadlock_stack=1"}
    with ThreadPoolExecutor(max_workers=n) as ex:
        results = list(ex.map(lambda c: run_proc(c, envx, budget * 10 + 120), cmds))
    viol, problems, evals, nrep = [], [], 0, 0
    seen = set()
    for i, r in enumerate(results):
        rep = parse_report(r["out"])
        if rep:
            evals += rep.get("evaluations", 0)
            viol.extend(rep.get("violations", []))
        else:
            problems.append("tsan shard %d: no report rc=%s %s" % (i, r["rc"], r["err"][-300:]))
        blocks = r["err"].split("WARNING: ThreadSanitizer")[1:]
        nrep += len(blocks)
        for b in blocks:
            # de-duplicate by the first in-repo / in-harness frames
            frames = [l.strip().split(" ", 2)[-1] for l in b.splitlines() if ("/repo/src" in l or "harness/src" in l)][:2]
            key = "|".join(f.split(":")[0] for f in frames)
            if key in seen:
                continue
            seen.add(key)
            viol.append({"property": prop, "sig": "tsan-report", "what": "ThreadSanitizer" + b[:1500],
                         "replay": {"property": prop, "tsan": True, "stderr": "WARNING: ThreadSanitizer" + b[:4000]}})
    return {"ran": True, "evaluations": evals, "shards": n, "report_blocks": nrep, "distinct_reports": len(seen)}, viol, problems


def replay_case(prop, r, cfg):
    if r.get("miri") or r.get("asan") or r.get("tsan"):
        print("sanitizer report (re-run the thorough tier to reproduce):")
        print(r.get("stderr", "")[-3000:])
        return 1
    exe = os.path.join(HARNESS, "target", "release", cfg["bin"])
    cmd = [exe, prop, "--tier", r.get("tier", "quick"), "--seed", str(r.get("seed", 1)),
           "--shard", "%d/%d" % (r.get("shard", 0), r.get("nshards", 1))]
    if r.get("crash"):
        # memory corruption shows when the allocator next looks at the damaged block, which can be in a
        # later case than the one that did the damage: replay the shard from its first case up to the fatal one
        cmd += ["--cases", str(r.get("index", 0) + 1), "--budget-s", "100000"]
    else:
        cmd += ["--only", str(r.get("index", 0)), "--verbose"]
    cmd += r.get("extra_args", [])
    if cfg["bin"] == "par":
        # the scenario is reproduced exactly, the OS schedule is not: repeat it
        cmd += ["--repeat", "500"]
    p = run_proc(cmd, None, 900)
    rep = parse_report(p["out"])
    sys.stderr.write(p["err"][-6000:])
    if rep is None and crash_signal(p) is not None:
        print("REPRODUCED crash: the process died from %s" % crash_signal(p))
        return 1
    if rep is None:
        print("INCONCLUSIVE property=%s reason=replay produced no report" % prop)
        return 2
    if rep.get("n_violations", 0) > 0:
        for v in rep["violations"][:5]:
            print("REPRODUCED %s: %s" % (v["sig"], v["what"][:1500]))
        return 1
    print("not reproduced (the case passes on the current tree)")
    return 0


def setup():
    ok, out, dt = build_native()
    log("native release build: %s (%.1f s)" % ("ok" if ok else "FAILED", dt))
    if not ok:
        return 1
    ok2, out, dt = build_debug()
    log("native debug build: %s (%.1f s)" % ("ok" if ok2 else "FAILED", dt))
    okm, out = build_miri()
    log("miri build: %s" % ("ok" if okm else "FAILED"))
    return 0 if (ok and ok2 and okm) else 1


def main():
    a = sys.argv[1:]
    if not a:
        print(__doc__)
        return 3
    if a[0] == "--setup":
        return setup()
    prop = a[0]
    if prop not in PROPS:
        print("unknown property", prop)
        return 3
    tier = os.environ.get("VERIF_TIER", "quick")
    seed = int(os.environ.get("VERIF_SEED", "1") or 1)
    rp = None
    i = 1
    while i < len(a):
        if a[i] == "--tier":
            tier = a[i + 1]
            i += 1
        elif a[i] == "--seed":
            seed = int(a[i + 1])
            i += 1
        elif a[i] == "--replay":
            rp = a[i + 1]
            i += 1
        i += 1
    if rp:
        return replay(prop, rp)
    return check(prop, tier, seed)


if __name__ == "__main__":
    sys.exit(main())
