#!/bin/bash
# collect_eq.sh <worktree> <name>: stores the behaviour-preserving patches of a sub-agent and re-runs the repository suite with them
set -u
WT=$1; NAME=$2; OUT=/verif/seeded/$NAME
mkdir -p $OUT
cd $WT || exit 1
cp eq_*.patch NOTES.md $OUT/ 2>/dev/null
git diff -- src Cargo.toml > $OUT/all.patch
echo "== suite with all changes (hooks off)"
cargo test --offline 2>&1 | grep -E "^test result|FAILED|panicked" | head
echo "== build with hooks"
cargo build --offline --features verif_hooks 2>&1 | grep -E "^error|warning: unused|Finished" | head -3
wc -l $OUT/all.patch
