#!/bin/bash
# coverage.sh: which lines of /repo/src do the quick workloads of the monitors execute?
# (llvm source-based coverage; one shard of every monitor for a few seconds). Informational: a line the
# monitors never run is a line in which no monitor can observe anything.
set -u
BIN=$(rustc +nightly --print sysroot)/lib/rustlib/x86_64-unknown-linux-gnu/bin
T=/verif/harness/target-cov
OUT=$(mktemp -d /tmp/verif-cov.XXXXXX)
cd /verif/harness || exit 1
LLVM_PROFILE_FILE=$OUT/build-%p.profraw RUSTFLAGS="-Cinstrument-coverage" CARGO_TARGET_DIR=$T cargo +nightly build --release --offline --bins 2>&1 | tail -1
for p in C01 C02 C03 C04 C05 C06 C09 C10 C11 C12 C13 C14 C17 C18 C19 C20; do
  LLVM_PROFILE_FILE=$OUT/mon-$p-%p.profraw $T/release/mon $p --tier quick --seed 1 --shard 0/16 --budget-s ${1:-6} > /dev/null 2>&1 &
done; wait
for p in C07 C08 C15 C16; do
  LLVM_PROFILE_FILE=$OUT/par-$p-%p.profraw $T/release/par $p --tier quick --seed 1 --shard 0/16 --budget-s ${1:-6} > /dev/null 2>&1 &
done; wait
$BIN/llvm-profdata merge -sparse $OUT/mon-*.profraw $OUT/par-*.profraw -o $OUT/all.profdata
$BIN/llvm-cov report $T/release/mon -object $T/release/par -instr-profile=$OUT/all.profdata /repo/src 2>/dev/null | awk '{print $1, $8, $9, $10}'
echo "--- lines of fasta.rs / fastq.rs / parallel.rs / lib.rs / policy.rs never executed:"
$BIN/llvm-cov show $T/release/mon -object $T/release/par -instr-profile=$OUT/all.profdata /repo/src/fasta.rs /repo/src/fastq.rs /repo/src/parallel.rs /repo/src/lib.rs /repo/src/policy.rs -show-line-counts-or-regions 2>/dev/null | grep -E "^(/repo| +[0-9]+\| +0\|)" | grep -v "^ *[0-9]*| *0| *[})]*;* *$"
rm -rf $OUT
