#!/usr/bin/env python3
"""write_meta.py <name> <property> <needs...>  -> /verif/seeded/<name>/meta.json"""
import json, os, sys
name, prop = sys.argv[1], sys.argv[2]
needs = " ".join(sys.argv[3:])
d = "/verif/seeded/" + name
res = open(os.path.join(d, "result.txt")).read().strip().splitlines() if os.path.exists(os.path.join(d, "result.txt")) else []
files = sorted(os.listdir(d))
meta = {
    "name": name,
    "breaks_property": prop,
    "origin": "written by an independent sub-agent that saw only the property text and a scratch worktree of /repo (nothing from /verif)",
    "needs_to_manifest": needs,
    "confirmed": "in the agent's worktree (tools/collect_mutant.sh): demonstration test fails with the change and passes without it; tests/fasta.rs (25), tests/fastq.rs (21) and the doctests (21) pass with the change",
    "applied_as": "git -C /repo apply /verif/seeded/%s/patch.diff ; python3 check.py <ID> --tier quick ; git -C /repo checkout -- ." % name,
    "checks_run": res,
    "caught_by_quick_check": any("VIOLATION" in r for r in res),
    "files": files,
}
json.dump(meta, open(os.path.join(d, "meta.json"), "w"), indent=1)
print(name, meta["caught_by_quick_check"])
