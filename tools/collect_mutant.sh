#!/bin/bash
# collect_mutant.sh <worktree> <name> : verifies a seeded change in its worktree and stores it under /verif/seeded/<name>
set -u
WT=$1; NAME=$2; ID=${NAME%%-*}
OUT=/verif/seeded/$NAME
mkdir -p $OUT
cd $WT || exit 1
git diff > $OUT/patch.diff
cp tests/demo_$ID.rs $OUT/ 2>/dev/null || ls tests | grep -i demo
cp NOTES.md $OUT/NOTES.md 2>/dev/null
echo "== with change: demo must fail"
cargo test --offline --test demo_$ID 2>&1 | grep -E "^test result|panicked|error(\[|:)" | head -5
echo "== with change: existing suite"
cargo test --offline --test fasta --test fastq 2>&1 | grep -E "^test result" 
cargo test --offline --doc 2>&1 | grep -E "^test result"
# (no `git stash`: the stash is shared between all worktrees of a repository)
git apply -R $OUT/patch.diff
echo "== without change: demo must pass"
cargo test --offline --test demo_$ID 2>&1 | grep -E "^test result|panicked" | head -3
git apply $OUT/patch.diff
wc -l $OUT/patch.diff
