#!/bin/bash
# runs the quick check of the target property against every seeded change; prints one line per change
cd /verif
# evidence of runs against a deliberately changed tree goes to a scratch directory, never to /verif/evidence
export VERIF_EVIDENCE_DIR=$(mktemp -d /tmp/verif-evidence-seeded.XXXXXX)
for d in /verif/seeded/*/; do
  n=$(basename $d); p=${n%%-*}
  extra=$(python3 -c "import json;print(' '.join(json.load(open('${d}meta.json')).get('also_check',[])))" 2>/dev/null)
  cd /repo && git status --short | grep -q . && { echo "/repo not clean"; exit 1; }
  git -C /repo apply ${d}patch.diff || { echo "$n: patch does not apply"; continue; }
  for P in $p $extra; do
    s=$(date +%s)
    out=$(cd /verif && python3 check.py $P --tier quick 2>/dev/null | grep -E "^(VIOLATION|OK|INCONCLUSIVE|  signature)" | head -2 | tr '\n' ' ' | cut -c1-160)
    echo "$n / $P ($(( $(date +%s)-s ))s): $out"
  done
  git -C /repo checkout -- .
done
