#!/bin/bash
# try_eq.sh <name> [props...] : applies /verif/seeded/<name>/all.patch (behaviour-preserving changes) to /repo,
# runs the quick checks (all 20 by default), reverts. Every check must stay silent.
set -u
# evidence of runs against a deliberately changed tree goes to a scratch directory, never to /verif/evidence
export VERIF_EVIDENCE_DIR=$(mktemp -d /tmp/verif-evidence-seeded.XXXXXX)
NAME=$1; shift
PROPS=${@:-C01 C02 C03 C04 C05 C06 C07 C08 C09 C10 C11 C12 C13 C14 C15 C16 C17 C18 C19 C20}
cd /repo && git status --short | grep -q . && { echo "/repo not clean"; exit 1; }
git -C /repo apply /verif/seeded/$NAME/all.patch || { echo "patch does not apply"; exit 1; }
: > /verif/seeded/$NAME/result.txt
for P in $PROPS; do
  s=$(date +%s)
  out=$(cd /verif && python3 check.py $P --tier quick 2>/dev/null | head -8 | cut -c1-600)
  echo "$NAME / $P ($(( $(date +%s)-s ))s): $out" | tee -a /verif/seeded/$NAME/result.txt
done
git -C /repo checkout -- .
git -C /repo status --short | head -3
