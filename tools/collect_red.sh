#!/bin/bash
# collect_red.sh <worktree> : a red-team change (the author chose the property: first line of NOTES.md "PROPERTY: Cxx");
# verifies it in its worktree and stores it as /verif/seeded/<Cxx>-<worktree name lower case>
set -u
WT=$1
cd $WT || exit 1
P=$(head -1 NOTES.md | sed -n 's/^PROPERTY: *\(C[0-9][0-9]\).*/\1/p')
[ -z "$P" ] && { echo "no PROPERTY line"; head -3 NOTES.md; exit 1; }
NAME=$P-$(basename $WT | tr 'A-Z' 'a-z')
OUT=/verif/seeded/$NAME
mkdir -p $OUT
git diff -- src > $OUT/patch.diff
cp tests/demo_X.rs $OUT/demo_X.rs
cp NOTES.md $OUT/NOTES.md
echo "== $NAME with change: demo must fail"
cargo test --offline --test demo_X 2>&1 | grep -E "^test result|error(\[|:)" | head -3
echo "== with change: existing suite"
cargo test --offline --test fasta --test fastq 2>&1 | grep -E "^test result"
cargo test --offline --doc 2>&1 | grep -E "^test result"
git apply -R $OUT/patch.diff
echo "== without change: demo must pass"
cargo test --offline --test demo_X 2>&1 | grep -E "^test result" | head -3
git apply $OUT/patch.diff
echo "NAME=$NAME PROP=$P"
