#!/bin/bash
# try_mutant.sh <name> <prop> [<prop> ...] : applies /verif/seeded/<name>/patch.diff to /repo, runs the quick checks, reverts
set -u
# evidence of runs against a deliberately changed tree goes to a scratch directory, never to /verif/evidence
export VERIF_EVIDENCE_DIR=$(mktemp -d /tmp/verif-evidence-seeded.XXXXXX)
NAME=$1; shift
cd /repo && git status --short | grep -q . && { echo "/repo not clean"; exit 1; }
git -C /repo apply /verif/seeded/$NAME/patch.diff || { echo "patch does not apply"; exit 1; }
for P in "$@"; do
  s=$(date +%s)
  out=$(cd /verif && python3 check.py $P --tier quick 2>/dev/null | head -6 | cut -c1-500)
  echo "--- $NAME / $P ($(( $(date +%s)-s ))s): $out" | tee -a /verif/seeded/$NAME/result.txt
done
git -C /repo checkout -- .
git -C /repo status --short | head -3
