//! Instrumented `Read + Seek` source and recording growth policy.
//! Both share their logs with the monitor through `Rc<RefCell<..>>` (the
//! sequential readers are single-threaded); the pipeline monitors use the `Send`
//! variants in `par.rs`.

use crate::rng::Rng;
use seq_io::policy::{BufPolicy, DoubleUntil, DoubleUntilLimited, StdPolicy};
use std::cell::RefCell;
use std::io::{self, Read, Seek, SeekFrom};
use std::rc::Rc;

/// panic payload used for logical budgets (classified as "does not terminate")
pub const BUDGET_MSG: &str = "VERIF-BUDGET";

#[derive(Clone, Debug, PartialEq, Eq)]
pub enum Chunking {
    Whole,
    OneByte,
    Fixed(usize),
    /// every read returns 1..=k bytes, k drawn per call from the seeded stream
    Seeded(u64, usize),
    /// every read returns all it was offered except the last k bytes (at least one byte): "the read
    /// that leaves exactly one byte free"
    Short(usize),
}

impl Chunking {
    pub fn name(&self) -> &'static str {
        match self {
            Chunking::Whole => "whole",
            Chunking::OneByte => "onebyte",
            Chunking::Fixed(_) => "fixed",
            Chunking::Seeded(..) => "seeded",
            Chunking::Short(_) => "short",
        }
    }
    pub fn describe(&self) -> String {
        format!("{:?}", self)
    }
}

#[derive(Clone, Debug, PartialEq, Eq)]
pub enum Interrupts {
    None,
    /// one `Interrupted` before every successful read
    BeforeEvery,
    /// `Interrupted` with probability num/16 per call (never more than 3 in a row)
    Seeded(u64, usize),
    /// bit i set = the i-th read call is preceded by an `Interrupted` (pattern repeats after 64 calls)
    Mask(u64),
    /// `n` consecutive `Interrupted` answers before the read call with this 0-based index
    /// ("any pattern of interrupted reads": also a long storm)
    Storm(usize, usize),
}

pub const ERR_KINDS: [io::ErrorKind; 38] = [
    io::ErrorKind::NotFound,
    io::ErrorKind::PermissionDenied,
    io::ErrorKind::ConnectionRefused,
    io::ErrorKind::ConnectionReset,
    io::ErrorKind::HostUnreachable,
    io::ErrorKind::NetworkUnreachable,
    io::ErrorKind::ConnectionAborted,
    io::ErrorKind::NotConnected,
    io::ErrorKind::AddrInUse,
    io::ErrorKind::AddrNotAvailable,
    io::ErrorKind::NetworkDown,
    io::ErrorKind::BrokenPipe,
    io::ErrorKind::AlreadyExists,
    io::ErrorKind::WouldBlock,
    io::ErrorKind::NotADirectory,
    io::ErrorKind::IsADirectory,
    io::ErrorKind::DirectoryNotEmpty,
    io::ErrorKind::ReadOnlyFilesystem,
    io::ErrorKind::StaleNetworkFileHandle,
    io::ErrorKind::InvalidInput,
    io::ErrorKind::InvalidData,
    io::ErrorKind::TimedOut,
    io::ErrorKind::WriteZero,
    io::ErrorKind::StorageFull,
    io::ErrorKind::NotSeekable,
    io::ErrorKind::QuotaExceeded,
    io::ErrorKind::FileTooLarge,
    io::ErrorKind::ResourceBusy,
    io::ErrorKind::ExecutableFileBusy,
    io::ErrorKind::Deadlock,
    io::ErrorKind::CrossesDevices,
    io::ErrorKind::TooManyLinks,
    io::ErrorKind::ArgumentListTooLong,
    io::ErrorKind::Unsupported,
    io::ErrorKind::UnexpectedEof,
    io::ErrorKind::OutOfMemory,
    io::ErrorKind::InvalidFilename,
    io::ErrorKind::Other,
];

#[derive(Debug)]
struct CustomErr(String);
impl std::fmt::Display for CustomErr {
    fn fmt(&self, f: &mut std::fmt::Formatter) -> std::fmt::Result {
        write!(f, "custom<{}>", self.0)
    }
}
impl std::error::Error for CustomErr {}

/// The injected errors differ in how they are built, not only in their kind: a message, no payload at
/// all, a custom error type, and an `io::Error` that wraps another `io::Error` of a different kind (what
/// a decompressor does). Kind and text of the OUTER error are what the caller must get back.
fn build_error(kind: io::ErrorKind, msg: String, style: usize) -> io::Error {
    match style % 4 {
        0 => io::Error::new(kind, msg),
        1 => {
            let inner_kind = if kind == io::ErrorKind::UnexpectedEof { io::ErrorKind::InvalidData } else { io::ErrorKind::UnexpectedEof };
            io::Error::new(kind, io::Error::new(inner_kind, msg))
        }
        2 => io::Error::from(kind),
        _ => io::Error::new(kind, CustomErr(msg)),
    }
}

#[derive(Clone, Debug, PartialEq, Eq)]
pub struct Fault {
    /// 1-based index among the read calls (resp. seek calls) of the source,
    /// `Interrupted` answers not counted
    pub at_call: usize,
    pub on_seek: bool,
    pub kind: io::ErrorKind,
    /// fire on this call and on the next `repeat - 1` calls of the same sort
    pub repeat: usize,
}

#[derive(Debug, Default)]
pub struct SrcLog {
    /// read calls answered with data, end of input or an injected error (not `Interrupted`)
    pub read_calls: usize,
    pub seek_calls: usize,
    pub interrupts: usize,
    pub bytes: usize,
    /// absolute offset of the next byte the source will deliver
    pub pos: usize,
    /// (global call number, on_seek, kind, message) of every injected error
    pub injected: Vec<(usize, bool, io::ErrorKind, String)>,
    /// read calls since the monitor last called `begin_op`
    pub calls_this_op: usize,
    /// largest offset ever delivered
    pub high_water: usize,
    pub eof_reports: usize,
    pub budget_tripped: bool,
    pub longest_interrupt_run: usize,
}

pub struct Src {
    data: Rc<Vec<u8>>,
    chunking: Chunking,
    chunk_rng: Rng,
    interrupts: Interrupts,
    int_rng: Rng,
    int_run: usize,
    int_pending_done: bool,
    storm_left: Option<usize>,
    pauses_given: usize,
    faults: Vec<Fault>,
    per_op_budget: usize,
    pub log: Rc<RefCell<SrcLog>>,
}

impl Src {
    pub fn new(
        data: Rc<Vec<u8>>,
        chunking: Chunking,
        interrupts: Interrupts,
        faults: Vec<Fault>,
        cap_hint: usize,
    ) -> (Src, Rc<RefCell<SrcLog>>) {
        let log = Rc::new(RefCell::new(SrcLog::default()));
        let chunk_rng = match chunking {
            Chunking::Seeded(s, _) => Rng::new(s),
            _ => Rng::new(0),
        };
        let int_rng = match interrupts {
            Interrupts::Seeded(s, _) => Rng::new(s),
            _ => Rng::new(0),
        };
        let per_op_budget = 2 * data.len() + 4 * cap_hint.min(1 << 20) + 256;
        (
            Src {
                data,
                chunking,
                chunk_rng,
                interrupts,
                int_rng,
                int_run: 0,
                int_pending_done: false,
                storm_left: None,
                pauses_given: 0,
                faults,
                per_op_budget,
                log: log.clone(),
            },
            log,
        )
    }
}

impl Read for Src {
    fn read(&mut self, buf: &mut [u8]) -> io::Result<usize> {
        let mut log = self.log.borrow_mut();
        // Interrupted answers come first and do not count as calls
        let call_no = log.read_calls; // 0-based index of the upcoming real call
        let want_int = match self.interrupts {
            Interrupts::None => false,
            Interrupts::BeforeEvery => !self.int_pending_done,
            Interrupts::Seeded(_, num) => self.int_run < 3 && self.int_rng.below(16) < num,
            Interrupts::Mask(m) => !self.int_pending_done && (m >> (call_no % 64)) & 1 == 1,
            Interrupts::Storm(n, at) => {
                if call_no == at && !buf.is_empty() {
                    let left = self.storm_left.get_or_insert(n);
                    if *left > 0 {
                        *left -= 1;
                        log.interrupts += 1;
                        log.longest_interrupt_run = log.longest_interrupt_run.max(n - *left);
                        return Err(io::Error::new(io::ErrorKind::Interrupted, "verif-interrupted"));
                    }
                }
                false
            }
        };
        if want_int && !buf.is_empty() {
            self.int_run += 1;
            self.int_pending_done = true;
            log.interrupts += 1;
            return Err(io::Error::new(io::ErrorKind::Interrupted, "verif-interrupted"));
        }
        self.int_run = 0;
        self.int_pending_done = false;

        log.read_calls += 1;
        log.calls_this_op += 1;
        if log.calls_this_op > self.per_op_budget {
            log.budget_tripped = true;
            drop(log);
            panic!("{} source read budget exceeded", BUDGET_MSG);
        }
        let n_call = log.read_calls;
        if let Some(f) = self
            .faults
            .iter()
            .find(|f| !f.on_seek && n_call >= f.at_call && n_call < f.at_call + f.repeat)
        {
            let e = build_error(f.kind, format!("inj-read-{}", n_call), n_call);
            log.injected.push((n_call, false, e.kind(), e.to_string()));
            return Err(e);
        }
        if let Some((at, k)) = EOF_PAUSE.with(|e| e.get()) {
            if log.pos == at && self.pauses_given < k && !buf.is_empty() {
                self.pauses_given += 1;
                log.eof_reports += 1;
                return Ok(0);
            }
        }
        let left = self.data.len() - log.pos;
        if left == 0 || buf.is_empty() {
            if left == 0 {
                log.eof_reports += 1;
            }
            return Ok(0);
        }
        let k = match self.chunking {
            Chunking::Whole => usize::MAX,
            Chunking::OneByte => 1,
            Chunking::Fixed(k) => k.max(1),
            Chunking::Seeded(_, maxk) => 1 + self.chunk_rng.below(maxk.max(1)),
            Chunking::Short(k) => buf.len().saturating_sub(k).max(1),
        };
        let n = k.min(left).min(buf.len());
        let p = log.pos;
        buf[..n].copy_from_slice(&self.data[p..p + n]);
        log.pos += n;
        log.bytes += n;
        if log.pos > log.high_water {
            log.high_water = log.pos;
        }
        Ok(n)
    }
}

thread_local! {
    /// a file that is still being written: at this offset the sources of this thread answer `Ok(0)`
    /// this many times before they deliver the rest
    pub static EOF_PAUSE: std::cell::Cell<Option<(usize, usize)>> = std::cell::Cell::new(None);
    /// sources of this thread accept only `SeekFrom::Start` (a range-request reader, an index-based
    /// archive): legal, and what the readers need today
    pub static ABSOLUTE_SEEKS_ONLY: std::cell::Cell<bool> = std::cell::Cell::new(false);
}
pub const ABSOLUTE_ONLY_MSG: &str = "verif-source: only absolute seeks are supported";

impl Seek for Src {
    fn seek(&mut self, to: SeekFrom) -> io::Result<u64> {
        let mut log = self.log.borrow_mut();
        log.seek_calls += 1;
        if ABSOLUTE_SEEKS_ONLY.with(|a| a.get()) && !matches!(to, SeekFrom::Start(_)) {
            return Err(io::Error::new(io::ErrorKind::Unsupported, ABSOLUTE_ONLY_MSG));
        }
        let n_call = log.seek_calls;
        if let Some(f) = self
            .faults
            .iter()
            .find(|f| f.on_seek && n_call >= f.at_call && n_call < f.at_call + f.repeat)
        {
            let e = build_error(f.kind, format!("inj-seek-{}", n_call), n_call + 2);
            log.injected.push((n_call, true, e.kind(), e.to_string()));
            return Err(e);
        }
        let new = match to {
            SeekFrom::Start(p) => p as i64,
            SeekFrom::Current(d) => log.pos as i64 + d,
            SeekFrom::End(d) => self.data.len() as i64 + d,
        };
        if new < 0 {
            return Err(io::Error::new(io::ErrorKind::InvalidInput, "seek before start"));
        }
        log.pos = (new as usize).min(self.data.len());
        Ok(new as u64)
    }
}

// ---------------------------------------------------------------------------

#[derive(Clone, Debug, PartialEq, Eq)]
pub enum PolSpec {
    /// the crate's `StdPolicy`
    Std,
    /// the crate's `DoubleUntil(t)`
    DoubleUntil(usize),
    /// the crate's `DoubleUntilLimited(t, limit)`
    DoubleUntilLimited(usize, usize),
    /// current + 1
    PlusOne,
    /// current + k
    Plus(usize),
    /// current * k (k >= 2): growth by more than a factor of two
    Times(usize),
    /// jumps to a fixed large size (or current + 1 above it)
    JumpTo(usize),
    /// refuse the first n requests, then behave like the inner policy
    RefuseFirst(usize, Box<PolSpec>),
    /// answer "stay at the current size" to the first n requests (n <= 3), then behave like the inner
    /// policy: it never refuses, the reader has to ask again
    Hesitate(usize, Box<PolSpec>),
    RefuseAlways,
}

impl PolSpec {
    pub fn describe(&self) -> String {
        format!("{:?}", self)
    }
    pub fn may_refuse(&self) -> bool {
        match self {
            PolSpec::DoubleUntilLimited(..) | PolSpec::RefuseAlways => true,
            PolSpec::RefuseFirst(n, inner) => *n > 0 || inner.may_refuse(),
            PolSpec::Hesitate(_, inner) => inner.may_refuse(),
            _ => false,
        }
    }
    fn build(&self) -> (usize, Box<dyn BufPolicy + Send>) {
        match self {
            PolSpec::Std => (0, Box::new(StdPolicy)),
            PolSpec::DoubleUntil(t) => (0, Box::new(DoubleUntil(*t))),
            PolSpec::DoubleUntilLimited(t, l) => (0, Box::new(DoubleUntilLimited::new(*t, *l))),
            PolSpec::PlusOne => (0, Box::new(PlusK(1))),
            PolSpec::Plus(k) => (0, Box::new(PlusK(*k))),
            PolSpec::Times(k) => (0, Box::new(TimesK(*k))),
            PolSpec::JumpTo(n) => (0, Box::new(JumpTo(*n))),
            PolSpec::RefuseFirst(n, inner) => {
                let (m, p) = inner.build();
                (n + m, p)
            }
            PolSpec::RefuseAlways => (usize::MAX, Box::new(PlusK(1))),
            PolSpec::Hesitate(n, inner) => {
                let (m, p) = inner.build();
                (m, Box::new(Hesitating { left: (*n).min(3), inner: p }))
            }
        }
    }
}

struct Hesitating {
    left: usize,
    inner: Box<dyn BufPolicy + Send>,
}
impl BufPolicy for Hesitating {
    fn grow_to(&mut self, current_size: usize) -> Option<usize> {
        if self.left > 0 {
            self.left -= 1;
            Some(current_size)
        } else {
            self.inner.grow_to(current_size)
        }
    }
}

struct TimesK(usize);
impl BufPolicy for TimesK {
    fn grow_to(&mut self, current_size: usize) -> Option<usize> {
        Some(current_size * self.0.max(2))
    }
}

struct JumpTo(usize);
impl BufPolicy for JumpTo {
    fn grow_to(&mut self, current_size: usize) -> Option<usize> {
        Some(if current_size < self.0 { self.0 } else { current_size + 1 + current_size / 2 })
    }
}

struct PlusK(usize);
impl BufPolicy for PlusK {
    fn grow_to(&mut self, current_size: usize) -> Option<usize> {
        Some(current_size + self.0.max(1))
    }
}

#[derive(Debug, Default)]
pub struct PolLog {
    /// (policy generation, argument, answer)
    pub calls: Vec<(usize, usize, Option<usize>)>,
    pub budget: usize,
    pub budget_tripped: bool,
    /// consecutive answers "stay at the current size"
    pub stalled: usize,
}

pub struct RecPolicy {
    generation: usize,
    refuse_left: usize,
    inner: Box<dyn BufPolicy + Send>,
    pub log: Rc<RefCell<PolLog>>,
}

impl RecPolicy {
    pub fn generation(&self) -> usize {
        self.generation
    }
    pub fn new(spec: &PolSpec, generation: usize, log: Rc<RefCell<PolLog>>) -> RecPolicy {
        let (refuse_left, inner) = spec.build();
        RecPolicy {
            generation,
            refuse_left,
            inner,
            log,
        }
    }
}

impl BufPolicy for RecPolicy {
    fn grow_to(&mut self, current_size: usize) -> Option<usize> {
        let ans = if self.refuse_left > 0 {
            if self.refuse_left != usize::MAX {
                self.refuse_left -= 1;
            }
            None
        } else {
            self.inner.grow_to(current_size)
        };
        let mut log = self.log.borrow_mut();
        if log.calls.last().map_or(true, |c| c.0 != self.generation) || ans.is_none() {
            // another policy object has been installed, or this one refuses: the count of consecutive
            // "stay" answers starts again
            log.stalled = 0;
        }
        log.calls.push((self.generation, current_size, ans));
        if let Some(a) = ans {
            if a == current_size {
                log.stalled += 1;
            } else {
                log.stalled = 0;
            }
            if a < current_size || log.stalled > 3 {
                // every policy of the harness wraps one of the crate's policies or adds a positive
                // constant: a non-larger size comes from a built-in policy and makes the readers spin
                log.budget_tripped = true;
                drop(log);
                panic!(
                    "{} the policy returned {} for the current size {} (the reader would ask again forever)",
                    BUDGET_MSG, a, current_size
                );
            }
        }
        if log.calls.len() > log.budget {
            log.budget_tripped = true;
            drop(log);
            panic!("{} policy call budget exceeded", BUDGET_MSG);
        }
        ans
    }
}
