//! C04 C05 C06 C09 C14 — monitors built on the history runner

use crate::gen::{self, show, Config, GenOpts};
use crate::hist::{count_source_calls, run_history, Deviation, HCase, HOutcome, Op, RunOpts, N_SLOTS};
use crate::m_basic::plant_fastq;
use crate::refmodel::Fmt;
use crate::report::Report;
use crate::rng::{Fnv, Rng};
use crate::seqmon::Ctx;
use crate::src::{Chunking, Fault, Interrupts, PolSpec, ERR_KINDS};
use seq_io::policy::BufPolicy;
use serde_json::json;
use std::rc::Rc;

#[derive(Clone, Copy)]
pub struct Weights {
    pub next: usize,
    pub owned: usize,
    pub set: usize,
    pub exact: usize,
    pub seek: usize,
    pub position: usize,
    pub setpolicy: usize,
    pub iterslot: usize,
    pub into: usize,
}

pub fn gen_ops(rng: &mut Rng, n_recs: usize, has_err: bool, w: &Weights, max_ops: usize) -> Vec<Op> {
    let n_ops = 1 + rng.below(max_ops);
    let total = w.next + w.owned + w.set + w.exact + w.seek + w.position + w.setpolicy + w.iterslot;
    let mut ops = vec![];
    // rough estimate of the cursor (set reads move it by an unknown amount)
    let mut est = 0usize;
    let n_targets = n_recs + has_err as usize;
    for k in 0..n_ops {
        if w.into > 0 && k + 1 == n_ops && rng.chance(w.into, 16) {
            ops.push(Op::IntoRecords);
            break;
        }
        let mut x = rng.below(total.max(1));
        let mut pick = |wt: usize| {
            if x < wt {
                true
            } else {
                x -= wt;
                false
            }
        };
        if pick(w.next) {
            ops.push(Op::Next);
            est = est.saturating_add(1);
        } else if pick(w.owned) {
            ops.push(Op::OwnedStep);
            est = est.saturating_add(1);
        } else if pick(w.set) {
            ops.push(Op::ReadSet(rng.below(N_SLOTS)));
            est = est.saturating_add(2);
        } else if pick(w.exact) {
            let rem = n_recs.saturating_sub(est);
            let n = match rng.below(6) {
                0 => 1,
                // "any n >= 1": also the largest values of the type ("everything that is left")
                1 if rng.chance(1, 8) => *rng.pick(&[usize::MAX, usize::MAX - 1, usize::MAX / 2 + 1, 1usize << 40, 1usize << 32, (1usize << 32) - 1, 65_536, 65_535]),
                1 => 2,
                2 => rem.max(1),
                3 => rem + 1,
                4 => rem.saturating_sub(1).max(1),
                _ => {
                    if n_recs > 500 && rng.chance(2, 3) {
                        // large batches (also decreasing ones on a reused set)
                        1 + rng.below(n_recs.min(6000))
                    } else {
                        1 + rng.below(12)
                    }
                }
            };
            ops.push(Op::ReadSetExact(n, rng.below(N_SLOTS)));
            est = est.saturating_add(n);
        } else if pick(w.seek) {
            if n_targets == 0 {
                ops.push(Op::Next);
                continue;
            }
            let t = match rng.below(6) {
                0 => 0,
                1 => n_targets - 1,
                2 => est.min(n_targets - 1),
                3 => est.saturating_sub(1).min(n_targets - 1),
                _ => rng.below(n_targets),
            };
            ops.push(Op::Seek(t));
            est = t;
        } else if pick(w.position) {
            ops.push(Op::Position);
        } else if pick(w.setpolicy) {
            ops.push(Op::SetPolicy(gen::gen_growing_policy(rng)));
        } else {
            match rng.below(6) {
                0 => ops.push(Op::ShrinkSlot(rng.below(N_SLOTS))),
                1 => ops.push(Op::CloneSlot(rng.below(N_SLOTS), rng.below(N_SLOTS))),
                _ => ops.push(Op::IterSlot(rng.below(N_SLOTS))),
            }
        }
    }
    ops
}

/// well-formed input with unique ids, optionally with one invalid FASTQ record planted
pub fn hist_input(rng: &mut Rng, fmt: Fmt, ctx: &Ctx, allow_invalid: bool) -> (Vec<u8>, &'static str) {
    let opts = GenOpts {
        max_recs: if ctx.miri { 5 } else { 40 },
        tag: ctx.shard,
        giant: 2,
        giant_len: 80,
        ..GenOpts::default()
    };
    if !ctx.miri && rng.chance(1, 2500) {
        // more than 2^16 tiny records that fit one buffer: record sets with more than 65535 entries
        let n = 65_530 + rng.below(3000);
        let mut out = Vec::with_capacity(n * 14);
        for i in 0..n {
            match fmt {
                Fmt::Fasta => out.extend_from_slice(format!(">r{}_{}\nA\n", ctx.shard, i).as_bytes()),
                Fmt::Fastq => out.extend_from_slice(format!("@r{}_{}\nA\n+\nI\n", ctx.shard, i).as_bytes()),
            }
        }
        return (out, "huge-set");
    }
    if !ctx.miri && rng.chance(1, 150) {
        // thousands of small records: batches and exact reads of more than 1000 records
        let n = 2000 + rng.below(6000);
        let mut out = Vec::with_capacity(n * 24);
        let mut long_from = if rng.chance(1, 2) { n / 2 + rng.below(n / 2) } else { usize::MAX };
        for i in 0..n {
            let l = if i >= long_from { 30 + rng.below(60) } else { rng.below(8) };
            match fmt {
                Fmt::Fasta => {
                    out.extend_from_slice(format!(">r{}_{}\n", ctx.shard, i).as_bytes());
                    let nl = 1 + (i * 7 + i / 5) % 3;
                    for j in 0..nl {
                        out.extend((0..l / nl + (j == 0) as usize).map(|k| b"ACGT"[(k + j) % 4]));
                        out.push(b'\n');
                    }
                }
                Fmt::Fastq => {
                    out.extend_from_slice(format!("@r{}_{}\n", ctx.shard, i).as_bytes());
                    out.extend((0..l).map(|k| b"ACGT"[k % 4]));
                    out.extend_from_slice(b"\n+\n");
                    out.extend((0..l).map(|_| b'I'));
                    out.push(b'\n');
                }
            }
            if i == long_from && rng.chance(1, 3) {
                long_from = usize::MAX; // a single long record only
            }
        }
        return (out, "big");
    }
    if fmt == Fmt::Fastq && allow_invalid && rng.chance(1, 5) {
        let abs = gen::gen_abs(rng, fmt, &opts);
        if !abs.recs.is_empty() {
            let mut ro = gen::gen_render_opts(rng, fmt);
            ro.trailing_blanks = 0;
            let at = rng.below(abs.recs.len());
            let (b, _) = plant_fastq(rng, &abs, &ro, at);
            return (b, "wf+invalid-record");
        }
    }
    if fmt == Fmt::Fasta && allow_invalid && rng.chance(1, 40) {
        return (b"\n\nno header\n>a\nACGT\n".to_vec(), "fasta-invalid-start");
    }
    (gen::wf(rng, fmt, &opts).2, "wf")
}

fn report_outcome(
    ctx: &Ctx,
    idx: u64,
    rep: &mut Report,
    case: &HCase,
    out: &HOutcome,
    tags: &[&str],
    extra: serde_json::Value,
) {
    for d in &out.deviations {
        report_dev(ctx, idx, rep, case, out, d, tags, &extra);
    }
}

fn report_dev(
    ctx: &Ctx,
    idx: u64,
    rep: &mut Report,
    case: &HCase,
    out: &HOutcome,
    d: &Deviation,
    tags: &[&str],
    extra: &serde_json::Value,
) {
    if tags.contains(&d.tag) {
        let mut j = ctx.replay_json(idx);
        j["case"] = case.describe();
        j["trace"] = json!(out.trace);
        j["extra"] = extra.clone();
        rep.violation(&format!("{}-{}", case.fmt.name(), d.sig), d.what.clone(), j);
    } else {
        rep.map("deviations_of_other_properties", &format!("{}:{}", d.tag, d.sig));
        if rep.notes.len() < 6 && !rep.notes.iter().any(|n| n.contains(&d.sig)) {
            rep.notes.push(format!(
                "deviation belonging to another property ({}:{}): {} | config {} faults {:?} ops {:?} trace {:?}",
                d.tag,
                d.sig,
                d.what,
                case.cfg.describe(),
                case.faults,
                case.ops,
                out.trace
            ));
        }
    }
}

fn add_stats(rep: &mut Report, out: &HOutcome) {
    let s = &out.stats;
    rep.add("operations", s.ops_run as u64);
    rep.add("records_delivered", s.records_delivered as u64);
    rep.add("seeks_in_buffer", s.seeks_in_buffer as u64);
    rep.add("seeks_real", s.seeks_real as u64);
    rep.max("largest_set_read", s.largest_set as u64);
    rep.add("clone_from_into_used_sets", s.clone_from_calls as u64);
    rep.add("exact_reads_asking_for_2pow32_or_more", s.exact_huge_n as u64);
    rep.add("positions_checked_after_an_error", s.positions_checked_after_error as u64);
    if s.largest_set > 65535 {
        rep.count("sets_read_with_more_than_65535_records");
    }
    rep.add("seek_targets_in_buffered_window", s.seek_targets_in_window as u64);
    rep.add("seek_targets_outside_buffered_window", s.seek_targets_outside_window as u64);
    rep.add("positions_checked", s.positions_checked as u64);
    rep.add("invariant_evaluations", s.inv_checks as u64);
    rep.add("slots_reverified", s.slots_reverified as u64);
    rep.add("grow_calls", s.grow_calls as u64);
    rep.add("exact_reads_with_fewer_left", s.exact_short as u64);
    rep.add("exact_reads_growing_with_batch", s.exact_grew_with_batch as u64);
    rep.add("source_errors_injected", s.injected_seen as u64);
    rep.add("policy_refusals", s.refusals_seen as u64);
    rep.add("buffer_limits_with_record_pending", s.limits_kept_strict as u64);
    rep.add("records_resumed_after_buffer_limit", s.resumed_after_limit as u64);
    if s.degraded {
        rep.count("histories_entering_degraded_mode");
    }
}

fn strict_cfg(rng: &mut Rng, len: usize, extents: &[usize]) -> Config {
    let mut cfg = gen::gen_config(rng, len, extents);
    if rng.chance(3, 4) {
        cfg.interrupts = Interrupts::None;
    }
    cfg
}

fn build_case(fmt: Fmt, bytes: Vec<u8>, cfg: Config, faults: Vec<Fault>, ops: Vec<Op>) -> HCase {
    let reference = fmt.reference(&bytes);
    HCase {
        fmt,
        input: Rc::new(bytes),
        cfg,
        faults,
        ops,
        reference,
    }
}

/// same length, same line structure, other content: an injective substitution of the sequence letters
pub fn twin_input(input: &[u8]) -> Vec<u8> {
    input
        .iter()
        .map(|b| match b {
            b'A' => b'C',
            b'C' => b'G',
            b'G' => b'T',
            b'T' => b'A',
            b'a' => b'c',
            b'c' => b'g',
            b'g' => b't',
            b't' => b'a',
            b'I' => b'J',
            b'J' => b'I',
            x => *x,
        })
        .collect()
}

fn hist_sig(case: &HCase) -> u64 {
    let mut h = Fnv::new();
    h.bytes(&case.input)
        .bytes(case.cfg.describe().as_bytes())
        .bytes(format!("{:?}{:?}", case.ops, case.faults).as_bytes());
    h.finish()
}

// ---------------------------------------------------------------------------

pub fn c04(ctx: &Ctx, rep: &mut Report) {
    let w = Weights {
        next: 5,
        owned: 2,
        set: 5,
        exact: 5,
        seek: 2,
        position: 1,
        setpolicy: 0,
        iterslot: 2,
        into: 2,
    };
    let mut idx = ctx.only.unwrap_or(0);
    loop {
        if ctx.only.is_none() && (ctx.expired() || idx >= ctx.max_cases) {
            break;
        }
        ctx.begin(idx);
        let mut rng = Rng::derive(&[ctx.seed, ctx.shard, idx, 4]);
        let fmt = if idx % 2 == 0 { Fmt::Fasta } else { Fmt::Fastq };
        let (bytes, family) = hist_input(&mut rng, fmt, ctx, true);
        let r = fmt.reference(&bytes);
        if r.ambiguous() {
            rep.count("skipped_ambiguous_inputs");
            idx += 1;
            continue;
        }
        let extents: Vec<usize> = r.recs.iter().map(|x| x.extent()).collect();
        let mut cfg = strict_cfg(&mut rng, bytes.len(), &extents);
        if family == "big" {
            cfg.cap = *rng.pick(&[65536usize, 65536, 16384, 4096, 1000]);
            if matches!(cfg.chunking, Chunking::OneByte | Chunking::Fixed(_)) {
                cfg.chunking = Chunking::Fixed(4096);
            }
            rep.count("big_histories");
        }
        if family == "huge-set" {
            cfg.cap = *rng.pick(&[1usize << 21, 1 << 20, 3 << 19]);
            cfg.chunking = Chunking::Whole;
            rep.count("histories_with_sets_beyond_65535_records");
        }
        if !ctx.miri && (idx / 2) % 3 == 1 && bytes.len() < 60_000 && rng.chance(1, 2) {
            // (twin runs, see below) the whole input in one buffer: every fill of every set then sees the
            // same buffer offset and length, for both readers
            cfg.cap = (bytes.len() + 1 + rng.below(50)).max(3);
        }
        gen::tame(&mut cfg, bytes.len());
        let ops = gen_ops(&mut rng, r.recs.len(), r.has_err(), &w, if ctx.miri { 10 } else if ctx.tier_thorough { 70 } else { 40 });
        let case = build_case(fmt, bytes, cfg, vec![], ops);
        rep.evaluations += 1;
        let (out, used_sets) = crate::hist::run_history_reusing(
            &case,
            RunOpts {
                iter_unknown_slots: false,
                necessity: false,
                err_fields: false,
                rep: Some(rep),
            },
            None,
        );
        report_outcome(ctx, idx, rep, &case, &out, &["order", "total"], json!(null));
        add_stats(rep, &out);
        if !ctx.miri && (idx / 2) % 3 == 1 && family != "huge-set" && out.deviations.is_empty() {
            // the same operations by a NEW reader over a twin input (same length and line structure, other
            // letters), filling the record sets the first reader has used: a set refilled by another reader
            // holds that reader's batch, whatever coincides between the two inputs (offsets, lengths, counts)
            let twin = twin_input(&case.input);
            let tr = fmt.reference(&twin);
            if tr.recs.len() == case.reference.recs.len() && !tr.ambiguous() {
                let tcase = build_case(fmt, twin, case.cfg.clone(), vec![], case.ops.clone());
                rep.evaluations += 1;
                rep.count("histories_repeated_on_a_twin_input_with_reused_sets");
                rep.map("twin_runs_by_format", fmt.name());
                let (out2, _) = crate::hist::run_history_reusing(
                    &tcase,
                    RunOpts {
                        iter_unknown_slots: false,
                        necessity: false,
                        err_fields: false,
                        rep: None,
                    },
                    Some(used_sets),
                );
                report_outcome(ctx, idx, rep, &tcase, &out2, &["order", "total"], json!("record sets reused from another reader over a twin input"));
                rep.add("records_delivered_into_sets_of_another_reader", out2.stats.records_delivered as u64);
            }
        }
        rep.map("family", family);
        rep.map("format", fmt.name());
        rep.map("chunking", case.cfg.chunking.name());
        if out.stats.records_delivered > 0 && case.ops.len() >= 2 {
            rep.nontrivial.insert(hist_sig(&case));
            if rep.want_sample() && case.ops.len() >= 5 && case.input.len() < 200 {
                rep.sample(json!({"case": case.describe(), "trace": out.trace}));
            }
        }
        if ctx.only.is_some() {
            if ctx.verbose {
                eprintln!("{}", serde_json::to_string_pretty(&json!({"case": case.describe(), "trace": out.trace})).unwrap());
            }
            break;
        }
        idx += 1;
    }
}

pub fn c05(ctx: &Ctx, rep: &mut Report) {
    let w = Weights {
        next: 5,
        owned: 1,
        set: 3,
        exact: 2,
        seek: 7,
        position: 3,
        setpolicy: 0,
        iterslot: 0,
        into: 1,
    };
    let mut idx = ctx.only.unwrap_or(0);
    loop {
        if ctx.only.is_none() && (ctx.expired() || idx >= ctx.max_cases) {
            break;
        }
        ctx.begin(idx);
        let mut rng = Rng::derive(&[ctx.seed, ctx.shard, idx, 5]);
        let fmt = if idx % 2 == 0 { Fmt::Fasta } else { Fmt::Fastq };
        if idx % 200 < 2 && !ctx.miri {
            // offsets beyond 4 GiB: a virtual 8 GiB file of 64-byte records
            rep.evaluations += 1;
            match crate::report::guarded(|| huge_offsets_case(&mut rng, fmt)) {
                Ok(Ok(n)) => rep.add("positions_checked_beyond_4gib_file", n),
                Ok(Err(m)) => {
                    let mut j = ctx.replay_json(idx);
                    j["virtual_file"] = json!("8 GiB of 64-byte records, see m_hist.rs huge_offsets_case");
                    rep.violation(&format!("{}-huge-offset", fmt.name()), m, j);
                }
                Err(c) => crate::m_basic::caught_violation(rep, &c, "seeking in a file larger than 4 GiB", ctx.replay_json(idx)),
            }
            if ctx.only.is_some() {
                break;
            }
            idx += 1;
            continue;
        }
        let (mut bytes, family) = hist_input(&mut rng, fmt, ctx, true);
        // FASTA inputs with leading blank lines so that the first header is not at (1,0)
        if fmt == Fmt::Fasta && rng.chance(1, 3) && bytes.first() == Some(&b'>') {
            let nb = 1 + rng.skewed(12);
            let mut b = vec![];
            for _ in 0..nb {
                if rng.chance(1, 4) {
                    b.extend_from_slice(b"\r\n");
                } else {
                    b.push(b'\n');
                }
            }
            b.extend_from_slice(&bytes);
            bytes = b;
        }
        let r = fmt.reference(&bytes);
        if r.ambiguous() {
            rep.count("skipped_ambiguous_inputs");
            idx += 1;
            continue;
        }
        let extents: Vec<usize> = r.recs.iter().map(|x| x.extent()).collect();
        let mut cfg = strict_cfg(&mut rng, bytes.len(), &extents);
        if family == "big" {
            cfg.cap = *rng.pick(&[65536usize, 65536, 16384, 4096, 1000]);
            if matches!(cfg.chunking, Chunking::OneByte | Chunking::Fixed(_)) {
                cfg.chunking = Chunking::Fixed(4096);
            }
            rep.count("big_histories");
        }
        if family == "huge-set" {
            cfg.cap = *rng.pick(&[1usize << 21, 1 << 20, 3 << 19]);
            cfg.chunking = Chunking::Whole;
            rep.count("histories_with_sets_beyond_65535_records");
        }
        gen::tame(&mut cfg, bytes.len());
        let ops = gen_ops(&mut rng, r.recs.len(), r.has_err(), &w, if ctx.miri { 10 } else if ctx.tier_thorough { 70 } else { 40 });
        let mut case = build_case(fmt, bytes, cfg, vec![], ops);
        rep.evaluations += 1;
        let absolute_only = (idx / 2) % 4 == 1;
        crate::src::ABSOLUTE_SEEKS_ONLY.with(|a| a.set(absolute_only));
        if absolute_only {
            rep.count("histories_over_a_source_with_absolute_seeks_only");
        }
        let mut out = run_history(
            &case,
            RunOpts {
                iter_unknown_slots: false,
                necessity: false,
                err_fields: false,
                rep: Some(rep),
            },
        );
        if !ctx.miri && (idx / 2) % 4 == 2 && family != "huge-set" && out.deviations.is_empty() && out.stats.read_calls > 0 {
            // the same history once more with one transient source error: the failing call returns it, the
            // history goes on; every record returned afterwards must still report its true coordinates
            // (what else may happen after an error is C06's and C14's business)
            let k = 1 + rng.below(out.stats.read_calls);
            case.faults = vec![Fault {
                at_call: k,
                on_seek: false,
                kind: *rng.pick(&ERR_KINDS),
                repeat: 1,
            }];
            rep.evaluations += 1;
            rep.count("histories_repeated_with_a_transient_source_error");
            rep.map("fault_repeats_by_format", fmt.name());
            let out2 = run_history(
                &case,
                RunOpts {
                    iter_unknown_slots: false,
                    necessity: false,
                    err_fields: false,
                    rep: None,
                },
            );
            report_outcome(ctx, idx, rep, &case, &out2, &["position"], json!({"transient_fault_at_read_call": k}));
            rep.add("positions_checked_after_an_error", out2.stats.positions_checked_after_error as u64);
            case.faults.clear();
            out.stats.positions_checked_after_error = 0;
        }
        crate::src::ABSOLUTE_SEEKS_ONLY.with(|a| a.set(false));
        // after a seek the stream must be restored: order deviations in a history with seeks belong here too
        let has_seek = case.ops.iter().any(|o| matches!(o, Op::Seek(_)));
        let tags: &[&str] = if has_seek {
            &["position", "seek", "order", "total"]
        } else {
            &["position", "seek", "total"]
        };
        report_outcome(ctx, idx, rep, &case, &out, tags, json!(null));
        add_stats(rep, &out);
        rep.map("family", family);
        rep.map("format", fmt.name());
        for op in &case.ops {
            if let Op::Seek(t) = op {
                let n = case.reference.recs.len();
                let class = if *t == n {
                    "invalid-group"
                } else if *t == 0 {
                    "first"
                } else if *t + 1 == n {
                    "last"
                } else {
                    "middle"
                };
                rep.map("seek_targets", class);
            }
        }
        if out.stats.seeks_in_buffer + out.stats.seeks_real > 0 && out.stats.records_delivered > 0 {
            rep.nontrivial.insert(hist_sig(&case));
            if rep.want_sample() && case.input.len() < 200 {
                rep.sample(json!({"case": case.describe(), "trace": out.trace}));
            }
        }
        if ctx.only.is_some() {
            if ctx.verbose {
                eprintln!("{}", serde_json::to_string_pretty(&json!({"case": case.describe(), "trace": out.trace})).unwrap());
            }
            break;
        }
        idx += 1;
    }
}

// ---------------------------------------------------------------------------
// C06

fn hostile_policy(rng: &mut Rng) -> PolSpec {
    match rng.below(10) {
        0 => PolSpec::RefuseAlways,
        1 => PolSpec::RefuseFirst(1 + rng.below(3), Box::new(PolSpec::Std)),
        2 => PolSpec::DoubleUntilLimited(*rng.pick(&[4usize, 16]), *rng.pick(&[8usize, 16, 40, 100])),
        3 => PolSpec::RefuseFirst(1, Box::new(PolSpec::PlusOne)),
        _ => gen::gen_growing_policy(rng),
    }
}

pub fn gen_faults(rng: &mut Rng) -> Vec<Fault> {
    let mut f = vec![];
    match rng.below(6) {
        0 | 1 => {}
        2 | 3 => f.push(Fault {
            at_call: 1 + rng.skewed(30),
            on_seek: false,
            kind: *rng.pick(&ERR_KINDS),
            repeat: 1 + rng.skewed(2),
        }),
        4 => f.push(Fault {
            at_call: 1 + rng.below(3),
            on_seek: true,
            kind: *rng.pick(&ERR_KINDS),
            repeat: 1,
        }),
        _ => {
            f.push(Fault {
                at_call: 1 + rng.skewed(20),
                on_seek: false,
                kind: *rng.pick(&ERR_KINDS),
                repeat: 1,
            });
            f.push(Fault {
                at_call: 1 + rng.below(3),
                on_seek: true,
                kind: *rng.pick(&ERR_KINDS),
                repeat: 1,
            });
        }
    }
    f
}

pub fn c06(ctx: &Ctx, rep: &mut Report) {
    if !ctx.miri && ctx.only.map_or(ctx.shard <= 1, |o| o == crate::m_basic::SPECIAL_TINY_FILES) {
        // "no byte string ... makes the readers panic": also the smallest files through the file-based constructors
        crate::m_basic::tiny_files_from_path(ctx, rep, if ctx.shard == 0 { Fmt::Fasta } else { Fmt::Fastq });
    }
    if ctx.only.map_or(false, |o| o >= crate::m_basic::SPECIAL_TINY_FILES) {
        return;
    }
    let w = Weights {
        next: 6,
        owned: 2,
        set: 4,
        exact: 3,
        seek: 3,
        position: 1,
        setpolicy: 1,
        iterslot: 4,
        into: 1,
    };
    let mut idx = ctx.only.unwrap_or(0);
    loop {
        if ctx.only.is_none() && (ctx.expired() || idx >= ctx.max_cases) {
            break;
        }
        ctx.begin(idx);
        let mut rng = Rng::derive(&[ctx.seed, ctx.shard, idx, 6]);
        let fmt = if idx % 2 == 0 { Fmt::Fasta } else { Fmt::Fastq };
        let (bytes, family) = if rng.chance(1, 2) {
            crate::m_basic::seeded_input(&mut rng, fmt, ctx.shard)
        } else {
            hist_input(&mut rng, fmt, ctx, true)
        };
        let mut r = fmt.reference(&bytes);
        let mut bytes = bytes;
        if r.ambiguous() {
            // membership needs a unique reference stream
            rep.count("replaced_ambiguous_inputs");
            bytes = gen::wf(&mut rng, fmt, &GenOpts { tag: ctx.shard, ..GenOpts::default() }).2;
            r = fmt.reference(&bytes);
        }
        let extents: Vec<usize> = r.recs.iter().map(|x| x.extent()).collect();
        let mut cfg = gen::gen_config(&mut rng, bytes.len(), &extents);
        cfg.policy = hostile_policy(&mut rng);
        gen::tame(&mut cfg, bytes.len());
        let faults = gen_faults(&mut rng);
        let ops = gen_ops(&mut rng, r.recs.len(), r.has_err(), &w, if ctx.miri { 12 } else if ctx.tier_thorough { 70 } else { 40 });
        let case = build_case(fmt, bytes, cfg, faults, ops);
        if ctx.only.is_some() && ctx.verbose {
            eprintln!("CASE {}", serde_json::to_string_pretty(&case.describe()).unwrap());
        }
        rep.evaluations += 1;
        let out = run_history(
            &case,
            RunOpts {
                iter_unknown_slots: true,
                necessity: false,
                err_fields: false,
                rep: Some(rep),
            },
        );
        report_outcome(ctx, idx, rep, &case, &out, &["total"], json!(null));
        add_stats(rep, &out);
        rep.map("family", family);
        rep.map("format", fmt.name());
        rep.map("policy", case.cfg.policy.describe().split('(').next().unwrap());
        if !case.faults.is_empty() {
            rep.count("histories_with_fault_schedule");
        }
        if case.cfg.policy.may_refuse() {
            rep.count("histories_with_refusing_policy");
        }
        // ops executed after the first unpredicted error
        if out.stats.degraded {
            rep.nontrivial.insert(hist_sig(&case));
            if rep.want_sample() && case.input.len() < 160 {
                rep.sample(json!({"case": case.describe(), "trace": out.trace}));
            }
        } else if out.stats.records_delivered > 0 && case.input.len() > case.cfg.cap {
            rep.nontrivial.insert(hist_sig(&case));
        }
        if ctx.only.is_some() {
            if ctx.verbose {
                eprintln!("{}", serde_json::to_string_pretty(&json!({"case": case.describe(), "trace": out.trace})).unwrap());
            }
            break;
        }
        idx += 1;
    }
}

// ---------------------------------------------------------------------------
// C09

/// input whose record extents are drawn around the capacity
fn c09_input(rng: &mut Rng, fmt: Fmt, cap: usize, tag: u64, n_max: usize) -> Vec<u8> {
    let n = 1 + rng.below(n_max);
    let mut out = vec![];
    if fmt == Fmt::Fasta && rng.chance(1, 4) {
        // leading blank run longer than the buffer: must never grow
        for _ in 0..cap + rng.below(2 * cap) {
            out.push(b'\n');
        }
    }
    let crlf = rng.chance(1, 5);
    let t: &[u8] = if crlf { b"\r\n" } else { b"\n" };
    // a few bytes in front of a record that is about as long as the buffer: the record then starts at
    // a small non-zero offset of the first buffer and ends around the buffer end
    let mut small_prefix = 0usize;
    if cap >= 1024 && out.is_empty() && rng.chance(1, 2) {
        let room = (cap / 1024).max(1) + rng.below(3);
        match fmt {
            Fmt::Fasta if rng.chance(1, 2) || room < 12 => {
                for _ in 0..1 + rng.below(room.min(40)) {
                    out.push(b'\n');
                }
            }
            Fmt::Fasta => out.extend_from_slice(format!(">p{}\nA\n", tag).as_bytes()),
            Fmt::Fastq if room >= 12 => out.extend_from_slice(format!("@p{}\nA\n+\nI\n", tag).as_bytes()),
            Fmt::Fastq => {}
        }
        small_prefix = out.len();
    }
    for i in 0..n {
        let head = format!("r{}_{}", tag, i).into_bytes();
        let target = if i == 0 && small_prefix > 0 {
            // ends within a few bytes of the buffer end
            (cap + 1).saturating_sub(rng.below(small_prefix + 3))
        } else {
            usize::MAX
        };
        let target = if target != usize::MAX { target } else { match rng.below(8) {
            0 => cap.saturating_sub(2),
            1 => cap.saturating_sub(1),
            2 => cap,
            3 => cap + 1,
            4 => cap + 2,
            5 => 2 * cap - 1 + rng.below(3),
            _ => rng.range(4, cap.max(5)),
        } };
        let last = i + 1 == n;
        let final_term = !last || rng.chance(2, 3);
        match fmt {
            Fmt::Fasta => {
                // ">" head T seq T  => extent = 1 + head + |T| + seq + |T|
                let fixed = 1 + head.len() + 2 * t.len();
                let seq_len = target.saturating_sub(fixed);
                out.push(b'>');
                out.extend_from_slice(&head);
                out.extend_from_slice(t);
                // sometimes split the sequence over two lines (same extent + |T|)
                let seq: Vec<u8> = (0..seq_len).map(|k| b"ACGT"[k % 4]).collect();
                out.extend_from_slice(&seq);
                if final_term {
                    out.extend_from_slice(t);
                }
            }
            Fmt::Fastq => {
                // "@" head T seq T "+" T qual T => extent = 2 + head + 4|T| + 2 seq
                let fixed = 2 + head.len() + 4 * t.len();
                let s = target.saturating_sub(fixed) / 2;
                out.push(b'@');
                out.extend_from_slice(&head);
                out.extend_from_slice(t);
                out.extend((0..s).map(|k| b"ACGT"[k % 4]));
                out.extend_from_slice(t);
                out.push(b'+');
                out.extend_from_slice(t);
                out.extend((0..s).map(|_| b'I'));
                if final_term {
                    out.extend_from_slice(t);
                }
            }
        }
    }
    if fmt == Fmt::Fastq && out.ends_with(b"\n") && rng.chance(1, 6) {
        out.extend_from_slice(if crlf { b"\r\n\r\n" } else { b"\n\n" });
    }
    out
}

fn check_policy_formulas(rng: &mut Rng, rep: &mut Report, n: usize, ctx: &Ctx, idx: u64) {
    use seq_io::policy::{DoubleUntil, DoubleUntilLimited, StdPolicy};
    for k in 0..n {
        let t = match k % 4 {
            0 => 1usize << rng.range(1, 30),
            1 => rng.range(1, 1 << 20),
            _ => rng.range(1, 300),
        };
        let size = match rng.below(5) {
            0 => t,
            1 => t - 1,
            2 => t + 1,
            3 => rng.range(1, 2 * t + 2),
            _ => rng.range(3, 1 << 24),
        }
        .max(1);
        let want = if size < t { size * 2 } else { size + t };
        let got = DoubleUntil(t).grow_to(size);
        let mut bad = None;
        if got != Some(want) {
            bad = Some(format!("DoubleUntil({}).grow_to({}) = {:?}, documented {}", t, size, got, want));
        }
        let limit = match rng.below(4) {
            0 => want,
            1 => want - 1,
            2 => want + 1,
            _ => rng.range(1, 4 * want),
        };
        let got = DoubleUntilLimited::new(t, limit).grow_to(size);
        let wantl = if want <= limit { Some(want) } else { None };
        if got != wantl {
            bad = Some(format!(
                "DoubleUntilLimited({}, {}).grow_to({}) = {:?}, documented {:?}",
                t, limit, size, got, wantl
            ));
        }
        let s8 = 1usize << 23;
        let size2 = match rng.below(4) {
            0 => s8,
            1 => s8 - 1,
            2 => s8 + 1,
            _ => size,
        };
        let wants = if size2 < s8 { size2 * 2 } else { size2 + s8 };
        let got = StdPolicy.grow_to(size2);
        if got != Some(wants) {
            bad = Some(format!("StdPolicy.grow_to({}) = {:?}, documented {}", size2, got, wants));
        }
        rep.add("policy_formula_triples", 1);
        if let Some(b) = bad {
            rep.violation("policy-formula", b, ctx.replay_json(idx));
        }
    }
}

/// Once per shard (replay index SPECIAL_RETRY + k): twelve records of 24 bytes, a 64-byte buffer, a
/// policy that always refuses, a source that delivers 40 bytes per call and fails once at its k-th
/// call (k = 2..=7); the failing call is retried. Every record fits and compaction always makes room,
/// so the policy must never be asked - also not on the retry after the source error.
pub const SPECIAL_RETRY: u64 = 4_000_000_200;

fn c09_retry_after_source_error(ctx: &Ctx, rep: &mut Report, fmt: Fmt, k: usize) {
    let mut data = vec![];
    for i in 0..12 {
        match fmt {
            Fmt::Fasta => data.extend_from_slice(format!(">r{:02}\nACGTACGTACGTACGTAC\n", i).as_bytes()),
            Fmt::Fastq => data.extend_from_slice(format!("@r{:02}\nACGTACGT\n+\nIIIIIIII\n", i).as_bytes()),
        }
    }
    let input = Rc::new(data);
    let cfg = Config {
        cap: 64,
        policy: PolSpec::RefuseAlways,
        chunking: Chunking::Fixed(40),
        interrupts: Interrupts::None,
    };
    let fault = Fault {
        at_call: k,
        on_seek: false,
        kind: std::io::ErrorKind::Other,
        repeat: 1,
    };
    rep.evaluations += 1;
    rep.count("retries_after_a_source_error_with_fitting_records");
    let mut j = ctx.replay_json(SPECIAL_RETRY + (k as u64) * 2 + (fmt == Fmt::Fastq) as u64);
    j["scenario"] = json!({"format": fmt.name(), "records": 12, "record_bytes": 24, "capacity": 64, "policy": "refuses always",
        "source": "40 bytes per read call", "source_error_at_read_call": k});
    let res = crate::report::guarded(|| {
        let mut rig = crate::seqmon::make_rig(fmt, input.clone(), &cfg, vec![fault]);
        let mut limits = 0usize;
        let mut recs = 0usize;
        for _ in 0..40 {
            rig.begin_op();
            match rig.r().next() {
                crate::api::Obs::End => break,
                crate::api::Obs::Rec(_) => recs += 1,
                crate::api::Obs::Err(e) => {
                    if matches!(e.obs, crate::refmodel::ErrObs::BufferLimit) {
                        limits += 1;
                    }
                }
            }
        }
        (rig.grow_calls(), limits, recs)
    });
    match res {
        Err(c) => crate::m_basic::caught_violation(rep, &c, "reading with a retried source error", j),
        Ok((asked, limits, recs)) => {
            if asked > 0 {
                rep.violation(
                    &format!("{}-policy-asked-after-retried-source-error", fmt.name()),
                    format!(
                        "after the source error at read call {} was returned and the call retried, the policy was asked {} times (BufferLimit returned {} times, {} of 12 records delivered) although every record needs 24 of the 64 bytes",
                        k, asked, limits, recs
                    ),
                    j,
                );
            }
        }
    }
}

pub fn c09(ctx: &Ctx, rep: &mut Report) {
    if !ctx.miri && ctx.only.map_or(ctx.shard < 6, |o| o >= SPECIAL_RETRY) {
        let ks: Vec<usize> = match ctx.only {
            Some(o) => vec![((o - SPECIAL_RETRY) / 2) as usize],
            None => vec![2 + ctx.shard as usize],
        };
        for k in ks {
            for fmt in [Fmt::Fasta, Fmt::Fastq] {
                if ctx.only.map_or(true, |o| (o - SPECIAL_RETRY) % 2 == (fmt == Fmt::Fastq) as u64) {
                    c09_retry_after_source_error(ctx, rep, fmt, k);
                }
            }
        }
        if ctx.only.is_some() {
            return;
        }
    }
    let w_plain = Weights {
        next: 6,
        owned: 2,
        set: 5,
        exact: 0,
        seek: 2,
        position: 0,
        setpolicy: 2,
        iterslot: 0,
        into: 1,
    };
    let w_exact = Weights { exact: 4, ..w_plain };
    let mut idx = ctx.only.unwrap_or(0);
    loop {
        if ctx.only.is_none() && (ctx.expired() || idx >= ctx.max_cases) {
            break;
        }
        ctx.begin(idx);
        let mut rng = Rng::derive(&[ctx.seed, ctx.shard, idx, 9]);
        if idx % 64 == 0 {
            check_policy_formulas(&mut rng, rep, if ctx.miri { 50 } else { 2000 }, ctx, idx);
        }
        let fmt = if idx % 2 == 0 { Fmt::Fasta } else { Fmt::Fastq };
        let mut cap = rng.range(3, 64);
        // long inputs whose records all fit: growth must never happen
        let long = idx % 97 == 5 && !ctx.miri;
        // the same record extents (cap-2 .. cap+2, 2cap+-1) around realistic capacities, powers of two included
        // small records, exact-count batches that need more than the policy permits, then single reads:
        // what a failed batch leaves behind must not make fitting records fail
        let over_limit = !long && (idx % 97 == 11 || idx % 97 == 12);
        let big_cap = !long && !over_limit && !ctx.miri && rng.chance(1, 150);
        if big_cap {
            cap = *rng.pick(&[4096usize, 65_535, 65_536, 65_537, 131_072, 1 << 18]);
            rep.count("histories_with_capacity_4k_to_256k");
        }
        let bytes = if long {
            let mut b = vec![];
            let nrec = 1000 * cap / 8;
            for i in 0..nrec {
                let head = format!("{}", i % 10);
                match fmt {
                    Fmt::Fasta => {
                        // extent + 1 <= cap
                        let seq = cap.saturating_sub(4 + head.len()).min(1 + i % 7);
                        b.push(b'>');
                        b.extend_from_slice(head.as_bytes());
                        b.push(b'\n');
                        b.extend((0..seq).map(|_| b'A'));
                        b.push(b'\n');
                    }
                    Fmt::Fastq => {
                        let s = (cap.saturating_sub(6 + head.len()) / 2).min(i % 5);
                        b.push(b'@');
                        b.extend_from_slice(head.as_bytes());
                        b.push(b'\n');
                        b.extend((0..s).map(|_| b'A'));
                        b.extend_from_slice(b"\n+\n");
                        b.extend((0..s).map(|_| b'I'));
                        b.push(b'\n');
                    }
                }
            }
            b
        } else if over_limit {
            let opts = GenOpts {
                max_recs: 30,
                max_line: (cap / 5).max(2),
                tag: ctx.shard,
                giant: 0,
                ..GenOpts::default()
            };
            let mut o = gen::gen_render_opts(&mut rng, fmt);
            o.leading_blanks = 0;
            gen::render(&gen::gen_abs(&mut rng, fmt, &opts), &o)
        } else {
            c09_input(&mut rng, fmt, cap, ctx.shard, if ctx.miri { 4 } else if big_cap { 6 } else { 30 })
        };
        let r = fmt.reference(&bytes);
        if r.ambiguous() || r.has_err() {
            rep.count("skipped_inputs");
            idx += 1;
            continue;
        }
        let policy = if long {
            PolSpec::Std
        } else if over_limit {
            rep.count("histories_with_exact_batches_over_the_limit");
            rng.pick(&[PolSpec::DoubleUntilLimited(8, cap), PolSpec::RefuseAlways, PolSpec::DoubleUntilLimited(8, cap + cap / 2)]).clone()
        } else if !ctx.miri && rng.chance(1, 120) {
            // one growth step of more than 16 MiB / 2^24 (+1, +2, ...): the size the policy returns
            // must be adopted whatever its distance from the current capacity
            rep.count("policies_with_growth_step_beyond_16mib");
            PolSpec::JumpTo(cap + (1 << 24) + *rng.pick(&[1usize, 2, 4096, 1 << 20, 1 << 24, (1 << 25) + 3]))
        } else if big_cap {
            // (no constant-step policies here: 10^5 reallocations of a 100 KiB buffer are legitimate but
            // would only burn the time budget, see gen::tame_policy)
            match rng.below(6) {
                0 => PolSpec::Std,
                1 => PolSpec::DoubleUntil(1 << 20),
                2 => PolSpec::DoubleUntilLimited(1 << 16, cap + rng.below(2 * cap)),
                3 => PolSpec::RefuseFirst(1 + rng.below(2), Box::new(PolSpec::Std)),
                4 => PolSpec::Times(3),
                _ => PolSpec::RefuseAlways,
            }
        } else {
            match rng.below(5) {
                0 => PolSpec::RefuseFirst(1 + rng.below(2), Box::new(PolSpec::PlusOne)),
                1 => PolSpec::DoubleUntilLimited(8, cap + rng.below(2 * cap)),
                2 => PolSpec::RefuseAlways,
                _ => gen::gen_growing_policy(&mut rng),
            }
        };
        let cfg = Config {
            cap,
            policy,
            chunking: gen::gen_chunking(&mut rng),
            interrupts: Interrupts::None,
        };
        // (idx / 2: the format alternates with idx, both formats get every mode)
        let exact_mode = over_limit || (!long && (idx / 2) % 4 == 3);
        let ops = if long {
            // read everything with next() or with sets
            let n = r.recs.len() + 2;
            if idx % 2 == 0 {
                vec![Op::Next; n]
            } else {
                vec![Op::ReadSet(0); n]
            }
        } else {
            gen_ops(
                &mut rng,
                r.recs.len(),
                false,
                if exact_mode { &w_exact } else { &w_plain },
                if ctx.miri { 10 } else { 40 },
            )
        };
        let case = build_case(fmt, bytes, cfg, vec![], ops);
        rep.evaluations += 1;
        let out = run_history(
            &case,
            RunOpts {
                iter_unknown_slots: false,
                necessity: true,
                err_fields: false,
                rep: Some(rep),
            },
        );
        report_outcome(ctx, idx, rep, &case, &out, &["policy", "total"], json!(null));
        add_stats(rep, &out);
        rep.map("format", fmt.name());
        rep.map("mode", if long { "long-fitting" } else if exact_mode { "with-exact" } else { "plain" });
        rep.map(
            "mode_x_format",
            &format!("{}:{}", if long { "long-fitting" } else if exact_mode { "with-exact" } else { "plain" }, fmt.name()),
        );
        if long {
            rep.count("long_inputs");
            if out.stats.grow_calls == 0 {
                rep.count("long_inputs_with_zero_growth");
            }
        }
        if let Some(x) = out.stats.min_growth_excess {
            rep.map("growth_excess_bytes", &format!("{:+}", x.min(9)));
        }
        if case.ops.iter().any(|o| matches!(o, Op::SetPolicy(_))) && out.stats.grow_calls > 0 {
            rep.count("histories_growing_after_policy_switch");
        }
        if out.stats.grow_calls > 0 || long {
            rep.nontrivial.insert(hist_sig(&case));
            if rep.want_sample() && case.input.len() < 200 {
                rep.sample(json!({"case": case.describe(), "trace": out.trace}));
            }
        }
        if ctx.only.is_some() {
            if ctx.verbose {
                eprintln!("{}", serde_json::to_string_pretty(&json!({"case": case.describe(), "trace": out.trace})).unwrap());
            }
            break;
        }
        idx += 1;
    }
}

// ---------------------------------------------------------------------------
// C14 — fault at every source call

pub fn c14(ctx: &Ctx, rep: &mut Report) {
    let w = Weights {
        next: 6,
        owned: 2,
        set: 4,
        exact: 2,
        seek: 4,
        position: 0,
        setpolicy: 0,
        iterslot: 0,
        into: 1,
    };
    let mut idx = ctx.only.unwrap_or(0);
    loop {
        if ctx.only.is_none() && (ctx.expired() || idx >= ctx.max_cases) {
            break;
        }
        ctx.begin(idx);
        let mut rng = Rng::derive(&[ctx.seed, ctx.shard, idx, 14]);
        let fmt = if idx % 2 == 0 { Fmt::Fasta } else { Fmt::Fastq };
        let (bytes, _family) = hist_input(&mut rng, fmt, ctx, true);
        let r = fmt.reference(&bytes);
        if r.ambiguous() {
            idx += 1;
            continue;
        }
        let extents: Vec<usize> = r.recs.iter().map(|x| x.extent()).collect();
        let mut cfg = gen::gen_config(&mut rng, bytes.len(), &extents);
        // interrupted-read patterns: a third of the cases (also exhaustive short masks)
        let int_mode = idx % 3 == 0;
        cfg.interrupts = if int_mode {
            match rng.below(4) {
                0 => Interrupts::BeforeEvery,
                1 => Interrupts::Mask(rng.next()),
                2 if !ctx.miri => Interrupts::Storm(
                    *rng.pick(&[4usize, 100, 256, 1000, 1023, 1024, 1025, 4096, 65_535, 65_536, 70_000]),
                    rng.below(8),
                ),
                _ => Interrupts::Seeded(rng.next(), rng.range(1, 12)),
            }
        } else {
            Interrupts::None
        };
        if rng.chance(1, 3) {
            cfg.chunking = Chunking::Seeded(rng.next(), 5);
        }
        gen::tame(&mut cfg, bytes.len());
        let ops = gen_ops(&mut rng, r.recs.len(), r.has_err(), &w, if ctx.miri { 8 } else { 30 });
        let base = build_case(fmt, bytes, cfg, vec![], ops);
        // fault-free run (also decides the interrupted-read clause: strict model, transcript identical)
        rep.evaluations += 1;
        let out0 = run_history(
            &base,
            RunOpts {
                iter_unknown_slots: false,
                necessity: false,
                err_fields: false,
                rep: None,
            },
        );
        if int_mode {
            rep.count("interrupted_pattern_runs");
            if let Interrupts::Storm(n, _) = base.cfg.interrupts {
                if n >= 1025 && out0.stats.interrupts_seen >= n {
                    rep.count("interrupt_storms_longer_than_1024_delivered");
                }
            }
            // with interrupts every deviation from the model is a visible effect of them
            report_outcome(ctx, idx, rep, &base, &out0, &["io", "order", "total", "position"], json!("interrupted reads"));
            // and the transcript must be identical to the one without interrupts
            let mut plain = build_case(fmt, base.input.to_vec(), base.cfg.clone(), vec![], base.ops.clone());
            plain.cfg.interrupts = Interrupts::None;
            let outp = run_history(
                &plain,
                RunOpts {
                    iter_unknown_slots: false,
                    necessity: false,
                    err_fields: false,
                    rep: None,
                },
            );
            if outp.trace != out0.trace {
                let at = (0..outp.trace.len().max(out0.trace.len()))
                    .find(|i| outp.trace.get(*i) != out0.trace.get(*i))
                    .unwrap_or(0);
                let mut j = ctx.replay_json(idx);
                j["case"] = base.describe();
                rep.violation(
                    &format!("{}-interrupted-visible", fmt.name()),
                    format!(
                        "op {}: {:?} with interrupted reads but {:?} without",
                        at,
                        out0.trace.get(at),
                        outp.trace.get(at)
                    ),
                    j,
                );
            }
            rep.nontrivial.insert(hist_sig(&base));
            if ctx.only.is_some() {
                break;
            }
            idx += 1;
            continue;
        }
        let (c_r, c_s) = (out0.stats.read_calls, out0.stats.seek_calls);
        // all k when few calls, else first/last 8 + seeded sample
        let mut ks: Vec<(usize, bool)> = vec![];
        let all_below = if ctx.tier_thorough { 512 } else { 64 };
        let pick = |c: usize, rng: &mut Rng| -> Vec<usize> {
            if c <= all_below {
                (1..=c).collect()
            } else {
                let mut v: Vec<usize> = (1..=8).chain(c - 7..=c).collect();
                for _ in 0..48 {
                    v.push(rng.range(9, c - 8));
                }
                v.sort();
                v.dedup();
                v
            }
        };
        for k in pick(c_r, &mut rng) {
            ks.push((k, false));
        }
        for k in pick(c_s, &mut rng) {
            ks.push((k, true));
        }
        if ctx.miri {
            ks.truncate(6);
        }
        for (k, on_seek) in ks {
            let kind = *rng.pick(&ERR_KINDS);
            let fault = Fault {
                at_call: k,
                on_seek,
                kind,
                repeat: 1,
            };
            let case = HCase {
                fmt,
                input: base.input.clone(),
                cfg: base.cfg.clone(),
                faults: vec![fault],
                ops: base.ops.clone(),
                reference: base.reference.clone(),
            };
            rep.evaluations += 1;
            let out = run_history(
                &case,
                RunOpts {
                    iter_unknown_slots: false,
                    necessity: false,
                    err_fields: false,
                    rep: None,
                },
            );
            // "io" deviations are this property's; so are order deviations before the call that
            // met the fault (records returned before the failure are the leading records of the
            // input). What happens after the failure is C06's question.
            let failing_op = out.stats.first_injected_op.unwrap_or(usize::MAX);
            for d in &out.deviations {
                let mine = d.tag == "io" || (d.tag == "order" && d.at_op < failing_op);
                if mine {
                    report_dev(ctx, idx, rep, &case, &out, d, &[d.tag], &json!({"fault_call": k, "on_seek": on_seek}));
                } else {
                    rep.map("deviations_of_other_properties", &format!("{}:{}", d.tag, d.sig));
                }
            }
            if out.stats.injected_seen == 0 {
                rep.count("faults_not_reached");
            } else {
                rep.count("faults_injected");
                rep.map("fault_kind", &format!("{:?}", kind));
                // phase: which operation was running
                if failing_op != usize::MAX {
                    let opk = case.ops.get(failing_op).map_or("?", |o| o.kind());
                    let phase = if on_seek {
                        "source-seek".to_string()
                    } else if failing_op == 0 {
                        format!("{}:initial-fill", opk)
                    } else {
                        format!("{}:refill", opk)
                    };
                    rep.map("fault_phase", &phase);
                }
                let mut h = Fnv::new();
                h.u64(hist_sig(&case)).u64(k as u64).u64(on_seek as u64);
                rep.nontrivial.insert(h.finish());
                if rep.want_sample() && case.input.len() < 160 {
                    rep.sample(json!({"case": case.describe(), "trace": out.trace}));
                }
            }
            if ctx.expired() && ctx.only.is_none() {
                break;
            }
        }
        rep.count("base_histories");
        if ctx.only.is_some() {
            break;
        }
        idx += 1;
    }
}

#[allow(dead_code)]
fn _unused(_: &[u8]) -> String {
    show(b"")
}

// ---------------------------------------------------------------------------
// C05: offsets beyond 4 GiB on a virtual file (64-byte records, computed on the fly)

pub struct VirtualSrc {
    pub fmt: Fmt,
    pub n_records: u64,
    pub pos: u64,
    pub seeks: u64,
    /// FASTQ: this record has '-' instead of '+' as separator
    pub defect_at: Option<u64>,
}

pub const VREC: u64 = 64;

fn vrecord(fmt: Fmt, k: u64) -> [u8; 64] {
    let mut r = [b'A'; 64];
    match fmt {
        Fmt::Fasta => {
            // '>' + 15 digits + LF + 46 bases + LF
            let h = format!(">{:015}\n", k);
            r[..17].copy_from_slice(h.as_bytes());
            for (i, b) in r[17..63].iter_mut().enumerate() {
                *b = b"ACGT"[(i + k as usize) % 4];
            }
            r[63] = b'\n';
        }
        Fmt::Fastq => {
            // '@' + 16 digits + LF (18) + 21 bases + LF (22) + "+\n" (2) + 21 quals + LF (22)
            let h = format!("@{:016}\n", k);
            r[..18].copy_from_slice(h.as_bytes());
            for (i, b) in r[18..39].iter_mut().enumerate() {
                *b = b"ACGT"[(i + k as usize) % 4];
            }
            r[39] = b'\n';
            r[40] = b'+';
            r[41] = b'\n';
            for b in r[42..63].iter_mut() {
                *b = b'I';
            }
            r[63] = b'\n';
        }
    }
    r
}

impl std::io::Read for VirtualSrc {
    fn read(&mut self, buf: &mut [u8]) -> std::io::Result<usize> {
        let total = self.n_records * VREC;
        let mut n = 0;
        while n < buf.len() && self.pos < total {
            let k = self.pos / VREC;
            let off = (self.pos % VREC) as usize;
            let mut rec = vrecord(self.fmt, k);
            if self.defect_at == Some(k) {
                rec[40] = b'-';
            }
            let take = (64 - off).min(buf.len() - n);
            buf[n..n + take].copy_from_slice(&rec[off..off + take]);
            n += take;
            self.pos += take as u64;
        }
        Ok(n)
    }
}

impl std::io::Seek for VirtualSrc {
    fn seek(&mut self, to: std::io::SeekFrom) -> std::io::Result<u64> {
        self.seeks += 1;
        match to {
            std::io::SeekFrom::Start(p) => self.pos = p,
            std::io::SeekFrom::Current(d) => self.pos = (self.pos as i64 + d) as u64,
            std::io::SeekFrom::End(d) => self.pos = ((self.n_records * VREC) as i64 + d) as u64,
        }
        Ok(self.pos)
    }
}

/// seeks around the 4 GiB offset and reads a few records; returns the number of positions checked
pub fn huge_offsets_case(rng: &mut Rng, fmt: Fmt) -> Result<u64, String> {
    use seq_io::fasta::{self, Record as _};
    use seq_io::fastq::{self, Record as _};
    let n_records: u64 = 1 << 32; // 256 GiB, more than 2^32 lines in both formats
    let cap = *rng.pick(&[64usize, 100, 1000, 4096, 65536]);
    let lines_per = match fmt {
        Fmt::Fasta => 2u64,
        Fmt::Fastq => 4,
    };
    let boundary = (1u64 << 32) / VREC;
    // record whose header is the first one on a line >= 2^32
    let line_boundary = (1u64 << 32) / lines_per;
    let mut targets: Vec<u64> = vec![];
    for _ in 0..6 {
        targets.push(match rng.below(7) {
            0 => boundary - 1 - rng.below(3) as u64,
            1 => boundary + rng.below(3) as u64,
            2 => (1u64 << 31) / VREC + rng.below(3) as u64 - 1,
            3 => rng.below(1000) as u64,
            4 => line_boundary - 2 + rng.below(4) as u64,
            _ => rng.next() % (n_records - 10),
        });
    }
    let src = VirtualSrc {
        fmt,
        n_records,
        pos: 0,
        seeks: 0,
        defect_at: None,
    };
    let mut checked = 0u64;
    let id_of = |head: &[u8]| -> Option<u64> { std::str::from_utf8(head).ok()?.parse().ok() };
    match fmt {
        Fmt::Fasta => {
            let mut rd = fasta::Reader::with_capacity(src, cap);
            for (ti, &k) in targets.iter().enumerate() {
                rd.seek(&fasta::Position::new(k * lines_per + 1, k * VREC))
                    .map_err(|e| format!("seek failed: {}", e))?;
                let steps = 1 + rng.below(4) as u64;
                for j in 0..steps {
                    let rec = rd.next().ok_or("end of input after seek")?.map_err(|e| format!("error after seek: {}", e))?;
                    if id_of(rec.head()) != Some(k + j) {
                        return Err(format!("after seek to record {} (byte {}), read {} returned head {:?}", k, k * VREC, j, show(rec.head())));
                    }
                    let p = rd.position().ok_or("no position after a record")?;
                    if (p.line(), p.byte()) != ((k + j) * lines_per + 1, (k + j) * VREC) {
                        return Err(format!(
                            "record {}: position() is ({}, {}), true coordinates ({}, {})",
                            k + j,
                            p.line(),
                            p.byte(),
                            (k + j) * lines_per + 1,
                            (k + j) * VREC
                        ));
                    }
                    checked += 1;
                }
                if ti % 2 == 1 {
                    let mut set = fasta::RecordSet::default();
                    rd.read_record_set(&mut set).ok_or("end")?.map_err(|e| e.to_string())?;
                    let mut want = k + steps;
                    for r in &set {
                        if id_of(r.head()) != Some(want) {
                            return Err(format!("record set after record {}: head {:?}, expected {}", k + steps - 1, show(r.head()), want));
                        }
                        want += 1;
                    }
                    if let Some(p) = rd.position() {
                        if (p.line(), p.byte()) != (want * lines_per + 1, want * VREC) {
                            return Err(format!("position after a set read is ({}, {}), next unread record {} is at ({}, {})", p.line(), p.byte(), want, want * lines_per + 1, want * VREC));
                        }
                        checked += 1;
                    }
                }
            }
        }
        Fmt::Fastq => {
            let mut rd = fastq::Reader::with_capacity(src, cap);
            for (ti, &k) in targets.iter().enumerate() {
                rd.seek(&fastq::Position::new(k * lines_per + 1, k * VREC))
                    .map_err(|e| format!("seek failed: {}", e))?;
                let steps = 1 + rng.below(4) as u64;
                for j in 0..steps {
                    let rec = rd.next().ok_or("end of input after seek")?.map_err(|e| format!("error after seek: {}", e))?;
                    if id_of(rec.head()) != Some(k + j) {
                        return Err(format!("after seek to record {} (byte {}), read {} returned head {:?}", k, k * VREC, j, show(rec.head())));
                    }
                    let p = rd.position();
                    if (p.line(), p.byte()) != ((k + j) * lines_per + 1, (k + j) * VREC) {
                        return Err(format!(
                            "record {}: position() is ({}, {}), true coordinates ({}, {})",
                            k + j,
                            p.line(),
                            p.byte(),
                            (k + j) * lines_per + 1,
                            (k + j) * VREC
                        ));
                    }
                    checked += 1;
                }
                if ti % 2 == 1 {
                    let mut set = fastq::RecordSet::default();
                    rd.read_record_set(&mut set).ok_or("end")?.map_err(|e| e.to_string())?;
                    let mut want = k + steps;
                    for r in &set {
                        if id_of(r.head()) != Some(want) {
                            return Err(format!("record set after record {}: head {:?}, expected {}", k + steps - 1, show(r.head()), want));
                        }
                        want += 1;
                    }
                    let p = rd.position();
                    if (p.line(), p.byte()) != (want * lines_per + 1, want * VREC) {
                        return Err(format!("position after a set read is ({}, {}), next unread record {} is at ({}, {})", p.line(), p.byte(), want, want * lines_per + 1, want * VREC));
                    }
                    checked += 1;
                }
            }
        }
    }
    Ok(checked)
}

/// C17 on the virtual file: a FASTQ record with a wrong separator at a line beyond 2^16 / 2^32;
/// the reader is positioned shortly before it with seek(). Returns the error observed.
pub fn huge_line_error_case(rng: &mut Rng) -> Result<(u64, crate::api::ErrFull), String> {
    use seq_io::fastq;
    let n_records: u64 = 1 << 31;
    let defect = match rng.below(4) {
        0 => (1u64 << 32) / 4 + rng.below(5) as u64,       // header line just beyond 2^32
        1 => (1u64 << 16) / 4 + rng.below(5) as u64,       // ... beyond 2^16
        2 => (1u64 << 31) / 4 + rng.below(5) as u64,
        _ => 3 + rng.next() % (n_records - 10),
    };
    let cap = *rng.pick(&[64usize, 100, 1000, 65536]);
    let src = VirtualSrc {
        fmt: Fmt::Fastq,
        n_records,
        pos: 0,
        seeks: 0,
        defect_at: Some(defect),
    };
    let mut rd = fastq::Reader::with_capacity(src, cap);
    let before = 1 + rng.below(3) as u64;
    let k = defect - before;
    rd.seek(&fastq::Position::new(k * 4 + 1, k * VREC)).map_err(|e| format!("seek failed: {}", e))?;
    let via_set = rng.chance(1, 3);
    if via_set {
        let mut set = fastq::RecordSet::default();
        loop {
            match rd.read_record_set(&mut set) {
                Some(Ok(())) => continue,
                Some(Err(e)) => return Ok((defect, crate::api::fq_err(e))),
                None => return Err("end of input before the defective record".into()),
            }
        }
    }
    for _ in 0..before + 1 {
        match rd.next() {
            Some(Ok(_)) => {}
            Some(Err(e)) => return Ok((defect, crate::api::fq_err(e))),
            None => return Err("end of input before the defective record".into()),
        }
    }
    Err("the defective record was accepted".into())
}
