//! C12 C13 C18 C19 C20

use crate::gen::{self, show, GenOpts, LineEnd, RenderOpts};
use crate::refmodel::Fmt;
use crate::report::{guarded, Report};
use crate::rng::{Fnv, Rng};
use crate::seqmon::Ctx;
use seq_io::fasta::{self, Record as FaRecord};
use seq_io::fastq::{self, Record as FqRecord};
use seq_io::policy::BufPolicy;
use serde_json::json;
use std::borrow::Cow;
use std::collections::VecDeque;

// ---------------------------------------------------------------------------
// C12 — LF / CRLF metamorphic

type Parsed = Vec<(Vec<u8>, Vec<Vec<u8>>, Option<Vec<u8>>, u64)>;

fn parse_with_lines(fmt: Fmt, input: &[u8], cap: usize) -> Result<Parsed, String> {
    let mut out = vec![];
    match fmt {
        Fmt::Fasta => {
            let mut r = fasta::Reader::with_capacity(input, cap);
            while let Some(x) = r.next() {
                let rec = x.map_err(|e| format!("{:?}", e))?;
                let item = (
                    rec.head().to_vec(),
                    rec.seq_lines().map(|l| l.to_vec()).collect::<Vec<_>>(),
                    None,
                );
                let line = r.position().map(|p| p.line()).unwrap_or(0);
                out.push((item.0, item.1, item.2, line));
                if out.len() > input.len() + 2 {
                    return Err("does not end".into());
                }
            }
        }
        Fmt::Fastq => {
            let mut r = fastq::Reader::with_capacity(input, cap);
            while let Some(x) = r.next() {
                let rec = x.map_err(|e| format!("{:?}", e))?;
                let item = (rec.head().to_vec(), vec![rec.seq().to_vec()], Some(rec.qual().to_vec()));
                let line = r.position().line();
                out.push((item.0, item.1, item.2, line));
                if out.len() > input.len() + 2 {
                    return Err("does not end".into());
                }
            }
        }
    }
    Ok(out)
}

/// a new reader whose first call is `seek` to a record position (taken from the reference model of this
/// very rendering), then everything to the end through next() or record sets
fn parse_after_seek(fmt: Fmt, input: &[u8], cap: usize, line: u64, byte: u64, via_sets: bool) -> Result<Parsed, String> {
    let mut out: Parsed = vec![];
    match fmt {
        Fmt::Fasta => {
            let mut r = fasta::Reader::with_capacity(std::io::Cursor::new(input), cap);
            r.seek(&fasta::Position::new(line, byte)).map_err(|e| format!("seek: {:?}", e))?;
            if via_sets {
                let mut set = fasta::RecordSet::default();
                while let Some(x) = r.read_record_set(&mut set) {
                    x.map_err(|e| format!("{:?}", e))?;
                    for rec in &set {
                        out.push((rec.head().to_vec(), rec.seq_lines().map(|l| l.to_vec()).collect(), None, 0));
                    }
                    if out.len() > input.len() + 2 {
                        return Err("does not end".into());
                    }
                }
            } else {
                while let Some(x) = r.next() {
                    let rec = x.map_err(|e| format!("{:?}", e))?;
                    let item = (rec.head().to_vec(), rec.seq_lines().map(|l| l.to_vec()).collect::<Vec<_>>());
                    let l = r.position().map(|p| p.line()).unwrap_or(0);
                    out.push((item.0, item.1, None, l));
                    if out.len() > input.len() + 2 {
                        return Err("does not end".into());
                    }
                }
            }
        }
        Fmt::Fastq => {
            let mut r = fastq::Reader::with_capacity(std::io::Cursor::new(input), cap);
            r.seek(&fastq::Position::new(line, byte)).map_err(|e| format!("seek: {:?}", e))?;
            if via_sets {
                let mut set = fastq::RecordSet::default();
                while let Some(x) = r.read_record_set(&mut set) {
                    x.map_err(|e| format!("{:?}", e))?;
                    for rec in &set {
                        out.push((rec.head().to_vec(), vec![rec.seq().to_vec()], Some(rec.qual().to_vec()), 0));
                    }
                    if out.len() > input.len() + 2 {
                        return Err("does not end".into());
                    }
                }
            } else {
                while let Some(x) = r.next() {
                    let rec = x.map_err(|e| format!("{:?}", e))?;
                    let item = (rec.head().to_vec(), vec![rec.seq().to_vec()], Some(rec.qual().to_vec()));
                    let l = r.position().line();
                    out.push((item.0, item.1, item.2, l));
                    if out.len() > input.len() + 2 {
                        return Err("does not end".into());
                    }
                }
            }
        }
    }
    Ok(out)
}

pub fn c12(ctx: &Ctx, rep: &mut Report) {
    let mut idx = ctx.only.unwrap_or(0);
    loop {
        if ctx.only.is_none() && (ctx.expired() || idx >= ctx.max_cases) {
            break;
        }
        ctx.begin(idx);
        let mut rng = Rng::derive(&[ctx.seed, ctx.shard, idx, 12]);
        let fmt = if idx % 2 == 0 { Fmt::Fasta } else { Fmt::Fastq };
        let opts = GenOpts {
            max_recs: if ctx.miri { 4 } else { 30 },
            max_line: 20,
            tag: ctx.shard,
            giant: 1,
            giant_len: 60,
            ..GenOpts::default()
        };
        let abs = gen::gen_abs(&mut rng, fmt, &opts);
        let trailing = if fmt == Fmt::Fastq && rng.chance(1, 5) { 1 + rng.below(2) } else { 0 };
        let leading = if fmt == Fmt::Fasta && rng.chance(1, 4) { rng.skewed(6) } else { 0 };
        let mut renderings: Vec<(String, RenderOpts)> = vec![];
        for (en, ends) in [("LF", LineEnd::Lf), ("CRLF", LineEnd::Crlf)] {
            for ft in [true, false] {
                renderings.push((
                    format!("{}{}", en, if ft { "+final" } else { "" }),
                    RenderOpts {
                        ends: ends.clone(),
                        final_term: ft,
                        leading_blanks: leading,
                        trailing_blanks: trailing,
                    },
                ));
            }
        }
        if fmt == Fmt::Fasta {
            for _ in 0..2 {
                renderings.push((
                    "mixed".into(),
                    RenderOpts {
                        ends: LineEnd::Mixed(rng.next()),
                        final_term: rng.chance(1, 2),
                        leading_blanks: leading,
                        trailing_blanks: 0,
                    },
                ));
                rep.count("per_line_mixtures");
            }
        }
        let mut base: Option<(Parsed, String, usize)> = None;
        let total_len: usize = abs.recs.iter().map(|r| r.head.len() + r.lines.iter().map(|l| l.len()).sum::<usize>()).sum();
        let ncaps = if ctx.miri { 2 } else { 4 };
        for (name, ro) in &renderings {
            let input = gen::render(&abs, ro);
            for k in 0..ncaps {
                let cap = match k {
                    0 => 65536,
                    1 => rng.range(3, 12),
                    2 => rng.range(3, 64),
                    _ => (total_len / 2).max(3),
                };
                rep.evaluations += 1;
                let res = guarded(|| parse_with_lines(fmt, &input, cap));
                let replay = || {
                    let mut j = ctx.replay_json(idx);
                    j["rendering"] = json!(name);
                    j["input"] = json!(show(&input));
                    j["input_hex"] = json!(gen::hex_limited(&input));
                    j["capacity"] = json!(cap);
                    j
                };
                let parsed = match res {
                    Err(c) => {
                        crate::m_basic::caught_violation(rep, &c, "reading", replay());
                        continue;
                    }
                    Ok(Err(e)) => {
                        rep.violation(
                            &format!("{}-error-in-rendering", fmt.name()),
                            format!("rendering {} at capacity {} gives error {}", name, cap, e),
                            replay(),
                        );
                        continue;
                    }
                    Ok(Ok(p)) => p,
                };
                if parsed.iter().any(|(h, l, q, _)| {
                    h.last() == Some(&b'\r') || l.iter().any(|x| x.contains(&b'\r')) || q.as_ref().map_or(false, |x| x.contains(&b'\r'))
                }) {
                    rep.violation(
                        &format!("{}-carriage-return-in-field", fmt.name()),
                        format!("rendering {} at capacity {}: a returned field contains CR", name, cap),
                        replay(),
                    );
                }
                // the records must be the abstract ones
                let same_abs = parsed.len() == abs.recs.len()
                    && parsed.iter().zip(&abs.recs).all(|(p, a)| p.0 == a.head && p.1 == a.lines && p.2 == a.qual);
                if !same_abs {
                    rep.violation(
                        &format!("{}-records-differ", fmt.name()),
                        format!("rendering {} at capacity {}: {} records parsed, abstract file has {} (or contents differ)", name, cap, parsed.len(), abs.recs.len()),
                        replay(),
                    );
                    continue;
                }
                rep.add("records_compared", parsed.len() as u64);
                match &base {
                    None => base = Some((parsed, name.clone(), cap)),
                    Some((b, bname, bcap)) => {
                        if let Some(i) = (0..b.len()).find(|i| b[*i].3 != parsed[*i].3) {
                            rep.violation(
                                &format!("{}-line-numbers-differ", fmt.name()),
                                format!(
                                    "record {}: line {} in rendering {} (cap {}), line {} in rendering {} (cap {})",
                                    i, b[i].3, bname, bcap, parsed[i].3, name, cap
                                ),
                                replay(),
                            );
                        }
                    }
                }
                rep.map("renderings", name);
                // the same rendering read by a reader that starts with a seek to record j > 0
                if k == 1 && abs.recs.len() >= 2 {
                    let rr = fmt.reference(&input);
                    if rr.recs.len() == abs.recs.len() {
                        let jn = 1 + rng.below(abs.recs.len() - 1);
                        let via_sets = rng.chance(1, 2);
                        rep.evaluations += 1;
                        let mut jr = replay();
                        jr["first_call_is_seek_to_record"] = json!(jn);
                        jr["via_sets"] = json!(via_sets);
                        match guarded(|| parse_after_seek(fmt, &input, cap, rr.recs[jn].line, rr.recs[jn].byte, via_sets)) {
                            Err(c) => crate::m_basic::caught_violation(rep, &c, "reading after an initial seek", jr),
                            Ok(Err(e)) => rep.violation(
                                &format!("{}-error-in-rendering", fmt.name()),
                                format!("rendering {} at capacity {}, reader starting with a seek to record {}: {}", name, cap, jn, e),
                                jr,
                            ),
                            Ok(Ok(p)) => {
                                rep.count("renderings_read_after_an_initial_seek");
                                let want = &abs.recs[jn..];
                                let same = p.len() == want.len() && p.iter().zip(want).all(|(x, a)| x.0 == a.head && x.1 == a.lines && x.2 == a.qual);
                                if !same {
                                    rep.violation(
                                        &format!("{}-records-differ", fmt.name()),
                                        format!("rendering {} at capacity {}, reader starting with a seek to record {}: {} records, expected {}", name, cap, jn, p.len(), want.len()),
                                        jr,
                                    );
                                } else if !via_sets {
                                    if let Some(i) = (0..p.len()).find(|i| p[*i].3 != rr.recs[jn + *i].line) {
                                        rep.violation(
                                            &format!("{}-line-numbers-differ", fmt.name()),
                                            format!("rendering {}: after an initial seek record {} reports line {}, true line {}", name, jn + i, p[i].3, rr.recs[jn + i].line),
                                            jr,
                                        );
                                    }
                                }
                            }
                        }
                    }
                }
            }
        }
        rep.count("abstract_files");
        if !abs.recs.is_empty() {
            let mut h = Fnv::new();
            h.bytes(format!("{:?}", abs).as_bytes());
            rep.nontrivial.insert(h.finish());
            if rep.want_sample() && total_len < 120 {
                rep.sample(json!({"format": fmt.name(), "lf": show(&gen::render(&abs, &renderings[0].1)),
                    "crlf_without_final": show(&gen::render(&abs, &renderings[3].1)), "renderings": renderings.len()}));
            }
        }
        if ctx.only.is_some() {
            break;
        }
        idx += 1;
    }
}

// ---------------------------------------------------------------------------
// C13 — views of a record

fn utf8_rel(bytes: &[u8], got: Result<&str, std::str::Utf8Error>) -> bool {
    match (std::str::from_utf8(bytes), got) {
        (Ok(a), Ok(b)) => a == b,
        (Err(_), Err(_)) => true,
        _ => false,
    }
}

fn check_head_views<R: FaRecordLike>(r: &R) -> Result<(), String> {
    let head = r.head_();
    let (id, desc): (&[u8], Option<&[u8]>) = match head.iter().position(|b| *b == b' ') {
        Some(i) => (&head[..i], Some(&head[i + 1..])),
        None => (head, None),
    };
    if r.id_bytes_() != id {
        return Err(format!("id_bytes {:?} but the header up to the first space is {:?}", show(r.id_bytes_()), show(id)));
    }
    if r.desc_bytes_() != desc {
        return Err(format!("desc_bytes {:?} but the rest of the header is {:?}", r.desc_bytes_().map(show), desc.map(show)));
    }
    if r.id_desc_bytes_() != (id, desc) {
        return Err("id_desc_bytes disagrees with id_bytes/desc_bytes".into());
    }
    if !utf8_rel(id, r.id_()) {
        return Err(format!("id() success/value does not follow UTF-8 validity of {:?}", show(id)));
    }
    match (desc, r.desc_()) {
        (None, None) => {}
        (Some(d), Some(g)) => {
            if !utf8_rel(d, g) {
                return Err(format!("desc() does not follow UTF-8 validity of {:?}", show(d)));
            }
        }
        _ => return Err("desc() presence differs from desc_bytes()".into()),
    }
    match (std::str::from_utf8(head), r.id_desc_()) {
        (Ok(h), Ok((i, d))) => {
            let mut sp = h.splitn(2, ' ');
            if sp.next() != Some(i) || sp.next() != d {
                return Err("id_desc() differs from the header split at the first space".into());
            }
        }
        (Err(_), Err(_)) => {}
        _ => return Err("id_desc() success does not follow UTF-8 validity of the header".into()),
    }
    Ok(())
}

/// the header accessors are the same trait methods in both formats
pub trait FaRecordLike {
    fn head_(&self) -> &[u8];
    fn id_bytes_(&self) -> &[u8];
    fn desc_bytes_(&self) -> Option<&[u8]>;
    fn id_desc_bytes_(&self) -> (&[u8], Option<&[u8]>);
    fn id_(&self) -> Result<&str, std::str::Utf8Error>;
    fn desc_(&self) -> Option<Result<&str, std::str::Utf8Error>>;
    fn id_desc_(&self) -> Result<(&str, Option<&str>), std::str::Utf8Error>;
}

macro_rules! impl_like {
    ($t:ty, $tr:path) => {
        impl FaRecordLike for $t {
            fn head_(&self) -> &[u8] {
                <Self as $tr>::head(self)
            }
            fn id_bytes_(&self) -> &[u8] {
                <Self as $tr>::id_bytes(self)
            }
            fn desc_bytes_(&self) -> Option<&[u8]> {
                <Self as $tr>::desc_bytes(self)
            }
            fn id_desc_bytes_(&self) -> (&[u8], Option<&[u8]>) {
                <Self as $tr>::id_desc_bytes(self)
            }
            fn id_(&self) -> Result<&str, std::str::Utf8Error> {
                <Self as $tr>::id(self)
            }
            fn desc_(&self) -> Option<Result<&str, std::str::Utf8Error>> {
                <Self as $tr>::desc(self)
            }
            fn id_desc_(&self) -> Result<(&str, Option<&str>), std::str::Utf8Error> {
                <Self as $tr>::id_desc(self)
            }
        }
    };
}

impl_like!(fasta::RefRecord<'_>, fasta::Record);
impl_like!(fasta::OwnedRecord, fasta::Record);
impl_like!(fastq::RefRecord<'_>, fastq::Record);
impl_like!(fastq::OwnedRecord, fastq::Record);

fn check_fasta_views(r: &fasta::RefRecord, rep: &mut Report) -> Result<fasta::OwnedRecord, String> {
    check_head_views(r)?;
    let lines: Vec<&[u8]> = r.seq_lines().collect();
    let concat: Vec<u8> = lines.concat();
    let owned_seq = r.owned_seq();
    let full = r.full_seq();
    let owned = r.to_owned_record();
    if concat != owned_seq {
        return Err("concatenated seq_lines() differ from owned_seq()".into());
    }
    if &full[..] != &concat[..] {
        return Err("full_seq() differs from the concatenated lines".into());
    }
    if owned.seq != concat {
        return Err("to_owned_record().seq differs from the concatenated lines".into());
    }
    if owned.head != r.head() {
        return Err("to_owned_record().head differs from head()".into());
    }
    // raw sequence differs only by line terminators
    let raw = r.seq();
    let from_raw: Vec<u8> = if lines.is_empty() {
        raw.to_vec()
    } else {
        // the terminator of the last line is already removed from the raw sequence
        let pieces: Vec<&[u8]> = raw.split(|b| *b == b'\n').collect();
        let np = pieces.len();
        pieces
            .iter()
            .enumerate()
            .map(|(i, p)| if i + 1 < np { crate::refmodel::trim1(p) } else { *p })
            .collect::<Vec<_>>()
            .concat()
    };
    if from_raw != concat {
        return Err(format!("raw seq() {:?} without terminators differs from the lines {:?}", show(raw), show(&concat)));
    }
    let n = r.num_seq_lines();
    if n != lines.len() || n != r.seq_lines().rev().count() || n != r.seq_lines().len() {
        return Err(format!(
            "num_seq_lines() {} / forward count {} / backward count {} / len() {} disagree",
            n,
            lines.len(),
            r.seq_lines().rev().count(),
            r.seq_lines().len()
        ));
    }
    let borrowed = matches!(full, Cow::Borrowed(_));
    if borrowed != (n == 1) {
        return Err(format!("full_seq() is {} with {} lines", if borrowed { "borrowed" } else { "owned" }, n));
    }
    check_head_views(&owned)?;
    if owned.seq() != &concat[..] || owned.head() != r.head() {
        return Err("OwnedRecord accessors differ".into());
    }
    match n {
        0 => rep.count("zero_line_records"),
        1 => rep.count("one_line_records"),
        _ => rep.count("multi_line_records"),
    }
    if lines.iter().any(|l| l.is_empty()) {
        rep.count("records_with_empty_lines");
    }
    Ok(owned)
}

fn check_fastq_views(r: &fastq::RefRecord) -> Result<fastq::OwnedRecord, String> {
    check_head_views(r)?;
    let owned = r.to_owned_record();
    if owned.head != r.head() || owned.seq != r.seq() || owned.qual != r.qual() {
        return Err("to_owned_record() differs from the borrowed views".into());
    }
    check_head_views(&owned)?;
    if owned.head() != r.head() || owned.seq() != r.seq() || owned.qual() != r.qual() {
        return Err("OwnedRecord accessors differ".into());
    }
    Ok(owned)
}

fn head_stats(h: &[u8], rep: &mut Report) {
    if std::str::from_utf8(h).is_err() {
        rep.count("non_utf8_heads");
    }
    if h.is_empty() {
        rep.count("empty_heads");
    }
    if h.first() == Some(&b' ') {
        rep.count("heads_with_leading_space");
    }
    if h.windows(2).any(|w| w == b"  ") {
        rep.count("heads_with_repeated_spaces");
    }
}

pub fn c13(ctx: &Ctx, rep: &mut Report) {
    // destinations of `clone_from`: they live as long as the shard and have held the sets of earlier inputs
    let mut pool_fa = fasta::RecordSet::default();
    let mut pool_fq = fastq::RecordSet::default();
    let mut idx = ctx.only.unwrap_or(0);
    loop {
        if ctx.only.is_none() && (ctx.expired() || idx >= ctx.max_cases) {
            break;
        }
        ctx.begin(idx);
        let mut rng = Rng::derive(&[ctx.seed, ctx.shard, idx, 13]);
        let fmt = if idx % 2 == 0 { Fmt::Fasta } else { Fmt::Fastq };
        let (mut bytes, family) = crate::m_basic::seeded_input(&mut rng, fmt, ctx.shard);
        // hostile headers: leading / repeated spaces, empty, invalid UTF-8
        if rng.chance(1, 3) {
            let marker = if fmt == Fmt::Fasta { b'>' } else { b'@' };
            if let Some(p) = bytes.iter().position(|b| *b == marker) {
                let ins: &[u8] = match rng.below(5) {
                    0 => b" lead",
                    1 => b"a  b   c",
                    2 => b"\xff\xfe id \xc3",
                    3 => b"",
                    _ => b"  ",
                };
                for (k, b) in ins.iter().enumerate() {
                    bytes.insert(p + 1 + k, *b);
                }
            }
        }
        let r = fmt.reference(&bytes);
        let cap = gen::gen_cap(&mut rng, bytes.len(), &r.recs.iter().map(|x| x.extent()).collect::<Vec<_>>());
        rep.evaluations += 1;
        rep.add("records_with_more_than_65535_lines", r.recs.iter().filter(|x| x.lines.len() > 65535).count() as u64);
        let replay = || {
            let mut j = ctx.replay_json(idx);
            j["input"] = json!(show(&bytes));
            j["input_hex"] = json!(gen::hex_limited(&bytes));
            j["capacity"] = json!(cap);
            j
        };
        let mut n_checked = 0u64;
        let res = guarded(|| -> Result<(), String> {
            match fmt {
                Fmt::Fasta => {
                    // pass 1: next()
                    let mut owned_next = vec![];
                    let mut rdr = fasta::Reader::with_capacity(&bytes[..], cap);
                    while let Some(Ok(rec)) = rdr.next() {
                        head_stats(rec.head(), rep);
                        owned_next.push(check_fasta_views(&rec, rep).map_err(|e| format!("next(): {}", e))?);
                        n_checked += 1;
                        rep.count("records_via_next");
                    }
                    // pass 2: records()
                    let mut rdr = fasta::Reader::with_capacity(&bytes[..], cap);
                    let via_iter: Vec<fasta::OwnedRecord> = rdr.records().map_while(|x| x.ok()).collect();
                    if via_iter != owned_next {
                        return Err("records() yields other owned records than next()+to_owned_record()".into());
                    }
                    rep.add("records_via_records_iter", via_iter.len() as u64);
                    // pass 3: record sets
                    let mut rdr = fasta::Reader::with_capacity(&bytes[..], cap);
                    let mut set = fasta::RecordSet::default();
                    let mut k = 0;
                    while let Some(Ok(())) = rdr.read_record_set(&mut set) {
                        let k0 = k;
                        for rec in &set {
                            let o = check_fasta_views(&rec, rep).map_err(|e| format!("record set: {}", e))?;
                            if owned_next.get(k) != Some(&o) {
                                return Err(format!("record {} taken from a record set differs from the one read singly", k));
                            }
                            k += 1;
                            n_checked += 1;
                            rep.count("records_via_record_set");
                        }
                        // copies of the set: `clone_from` into a set that other inputs have filled before, and `clone`
                        pool_fa.clone_from(&set);
                        let cl = set.clone();
                        for (name, copy) in [("clone_from into a used set", &pool_fa), ("clone", &cl)] {
                            if copy.len() != set.len() {
                                return Err(format!("{}: {} records instead of {}", name, copy.len(), set.len()));
                            }
                            for (j, rec) in copy.into_iter().enumerate() {
                                let o = check_fasta_views(&rec, rep).map_err(|e| format!("{}: {}", name, e))?;
                                if owned_next.get(k0 + j) != Some(&o) {
                                    return Err(format!("record {} of a set made by {} differs from the one read singly", k0 + j, name));
                                }
                            }
                        }
                        rep.count("record_sets_copied_and_compared");
                    }
                }
                Fmt::Fastq => {
                    let mut owned_next = vec![];
                    let mut rdr = fastq::Reader::with_capacity(&bytes[..], cap);
                    while let Some(Ok(rec)) = rdr.next() {
                        head_stats(rec.head(), rep);
                        owned_next.push(check_fastq_views(&rec).map_err(|e| format!("next(): {}", e))?);
                        n_checked += 1;
                        rep.count("records_via_next");
                    }
                    let mut rdr = fastq::Reader::with_capacity(&bytes[..], cap);
                    let via_iter: Vec<fastq::OwnedRecord> = rdr.records().map_while(|x| x.ok()).collect();
                    if via_iter != owned_next {
                        return Err("records() yields other owned records than next()+to_owned_record()".into());
                    }
                    rep.add("records_via_records_iter", via_iter.len() as u64);
                    let mut rdr = fastq::Reader::with_capacity(&bytes[..], cap);
                    let mut set = fastq::RecordSet::default();
                    let mut k = 0;
                    while let Some(Ok(())) = rdr.read_record_set(&mut set) {
                        let k0 = k;
                        for rec in &set {
                            let o = check_fastq_views(&rec).map_err(|e| format!("record set: {}", e))?;
                            if owned_next.get(k) != Some(&o) {
                                return Err(format!("record {} taken from a record set differs from the one read singly", k));
                            }
                            k += 1;
                            n_checked += 1;
                            rep.count("records_via_record_set");
                        }
                        pool_fq.clone_from(&set);
                        let cl = set.clone();
                        for (name, copy) in [("clone_from into a used set", &pool_fq), ("clone", &cl)] {
                            if copy.len() != set.len() {
                                return Err(format!("{}: {} records instead of {}", name, copy.len(), set.len()));
                            }
                            for (j, rec) in copy.into_iter().enumerate() {
                                let o = check_fastq_views(&rec).map_err(|e| format!("{}: {}", name, e))?;
                                if owned_next.get(k0 + j) != Some(&o) {
                                    return Err(format!("record {} of a set made by {} differs from the one read singly", k0 + j, name));
                                }
                            }
                        }
                        rep.count("record_sets_copied_and_compared");
                    }
                }
            }
            Ok(())
        });
        match res {
            Err(c) => crate::m_basic::caught_violation(rep, &c, "record views", replay()),
            Ok(Err(m)) => rep.violation(&format!("{}-views-disagree", fmt.name()), m, replay()),
            Ok(Ok(())) => {}
        }
        rep.map("family", family);
        if n_checked > 0 {
            let mut h = Fnv::new();
            h.bytes(&bytes).u64(cap as u64);
            rep.nontrivial.insert(h.finish());
            if rep.want_sample() && bytes.len() < 120 {
                rep.sample(json!({"format": fmt.name(), "input": show(&bytes), "capacity": cap, "records_checked": n_checked}));
            }
        }
        if ctx.only.is_some() {
            break;
        }
        idx += 1;
    }
}

// ---------------------------------------------------------------------------
// C18 — steady state allocates nothing

struct CountPolicy(std::rc::Rc<std::cell::Cell<usize>>);
impl BufPolicy for CountPolicy {
    fn grow_to(&mut self, current: usize) -> Option<usize> {
        self.0.set(self.0.get() + 1);
        Some(current * 2)
    }
}

fn inside(outer: &[u8], inner: &[u8]) -> bool {
    if inner.is_empty() {
        return true;
    }
    let o = outer.as_ptr() as usize;
    let i = inner.as_ptr() as usize;
    i >= o && i + inner.len() <= o + outer.len()
}

/// random access in steady state: after one sequential pass, `seek` to the position of a record that has
/// been read before and read it again. The read after the seek must not allocate (the seek itself is
/// not measured), the capacity must stay.
fn c18_after_seek(ctx: &Ctx, rep: &mut Report, idx: u64, fmt: Fmt, rng: &mut Rng) {
    let cap = *rng.pick(&[256usize, 1000, 4096, 65536]);
    let n = 120 + rng.below(200);
    let mut input = vec![];
    for i in 0..n {
        let l = 5 + rng.below(60);
        match fmt {
            Fmt::Fasta => {
                input.extend_from_slice(format!(">r{} d\n", i).as_bytes());
                for _ in 0..1 + rng.below(3) {
                    input.extend((0..l).map(|k| b"ACGT"[k % 4]));
                    input.push(b'\n');
                }
            }
            Fmt::Fastq => {
                input.extend_from_slice(format!("@r{} d\n", i).as_bytes());
                input.extend((0..l).map(|k| b"ACGT"[k % 4]));
                input.extend_from_slice(b"\n+\n");
                input.extend((0..l).map(|_| b'I'));
                input.push(b'\n');
            }
        }
    }
    let r = fmt.reference(&input);
    let lookups = 150;
    let targets: Vec<usize> = (0..lookups).map(|_| rng.below(r.recs.len())).collect();
    rep.evaluations += 1;
    let mut j = ctx.replay_json(idx);
    j["format"] = json!(fmt.name());
    j["capacity"] = json!(cap);
    j["mode"] = json!("seek, then read, after one sequential pass");
    // (allocator calls in the reads after seeks, capacity changed, wrong records)
    let res = guarded(|| -> Result<(u64, bool, usize), String> {
        let mut allocs = 0u64;
        let mut wrong = 0usize;
        match fmt {
            Fmt::Fasta => {
                let mut rdr = fasta::Reader::with_capacity(std::io::Cursor::new(&input[..]), cap);
                while let Some(x) = rdr.next() {
                    x.map_err(|e| e.to_string())?;
                }
                // two unmeasured lookups (the first seek after the end of input)
                for &t in targets.iter().take(2) {
                    rdr.seek(&fasta::Position::new(r.recs[t].line, r.recs[t].byte)).map_err(|e| e.to_string())?;
                    let _ = rdr.next();
                }
                let cap0 = rdr.verif_capacity();
                for &t in &targets {
                    rdr.seek(&fasta::Position::new(r.recs[t].line, r.recs[t].byte)).map_err(|e| e.to_string())?;
                    crate::alloc::arm();
                    let ok = match rdr.next() {
                        Some(Ok(rec)) => {
                            let mut l = 0;
                            for line in rec.seq_lines() {
                                l += line.len();
                            }
                            std::hint::black_box(l);
                            rec.head() == &r.recs[t].head[..]
                        }
                        _ => false,
                    };
                    let (a, re, _) = crate::alloc::disarm();
                    allocs += a + re;
                    if !ok {
                        wrong += 1;
                    }
                }
                Ok((allocs, rdr.verif_capacity() != cap0, wrong))
            }
            Fmt::Fastq => {
                let mut rdr = fastq::Reader::with_capacity(std::io::Cursor::new(&input[..]), cap);
                while let Some(x) = rdr.next() {
                    x.map_err(|e| e.to_string())?;
                }
                for &t in targets.iter().take(2) {
                    rdr.seek(&fastq::Position::new(r.recs[t].line, r.recs[t].byte)).map_err(|e| e.to_string())?;
                    let _ = rdr.next();
                }
                let cap0 = rdr.verif_capacity();
                for &t in &targets {
                    rdr.seek(&fastq::Position::new(r.recs[t].line, r.recs[t].byte)).map_err(|e| e.to_string())?;
                    crate::alloc::arm();
                    let ok = match rdr.next() {
                        Some(Ok(rec)) => {
                            std::hint::black_box(rec.seq().len() + rec.qual().len());
                            rec.head() == &r.recs[t].head[..]
                        }
                        _ => false,
                    };
                    let (a, re, _) = crate::alloc::disarm();
                    allocs += a + re;
                    if !ok {
                        wrong += 1;
                    }
                }
                Ok((allocs, rdr.verif_capacity() != cap0, wrong))
            }
        }
    });
    match res {
        Err(c) => crate::m_basic::caught_violation(rep, &c, "reading after seek", j),
        Ok(Err(m)) => rep.violation(&format!("{}-read-or-seek-failed", fmt.name()), format!("a well-formed input could not be read or sought: {}", m), j),
        Ok(Ok((allocs, cap_changed, wrong))) => {
            rep.map("mode", &format!("{}:next-after-seek", fmt.name()));
            rep.add("measured_records", lookups as u64);
            rep.add("reads_after_seek_measured", lookups as u64);
            if allocs > 0 {
                rep.violation(
                    &format!("{}-next-after-seek-allocates", fmt.name()),
                    format!("{} allocator calls in {} reads that each followed a seek to a record read before", allocs, lookups),
                    j.clone(),
                );
            }
            if cap_changed {
                rep.violation(&format!("{}-capacity-changed-after-seek", fmt.name()), "the buffer capacity changed during random access".into(), j.clone());
            }
            if wrong > 0 {
                rep.count("other_property_deviation");
            }
            let mut h = Fnv::new();
            h.bytes(&input).u64(cap as u64).u64(18_000);
            rep.nontrivial.insert(h.finish());
        }
    }
}

/// one reused record set over a 1 MiB buffer; stretches of tiny records (more than 65 536 per batch)
/// alternate with stretches of 4 KB records (a hundred or two per batch). After two cycles every batch
/// size and record size has been seen: the rest must not allocate.
fn c18_alternating_batches(ctx: &Ctx, rep: &mut Report, idx: u64, fmt: Fmt) {
    let cap = 1usize << 20;
    let mut input = vec![];
    for cycle in 0..4 {
        let target = input.len() + cap + cap / 4;
        let mut i = 0usize;
        while input.len() < target {
            match fmt {
                Fmt::Fasta => input.extend_from_slice(format!(">{}\nA\n", i % 10).as_bytes()),
                Fmt::Fastq => input.extend_from_slice(format!("@{}\nA\n+\nI\n", i % 10).as_bytes()),
            }
            i += 1;
        }
        let target = input.len() + cap + cap / 4;
        while input.len() < target {
            let l = 4000 + (cycle * 7) % 9;
            match fmt {
                Fmt::Fasta => {
                    input.extend_from_slice(b">L\n");
                    input.extend((0..l).map(|k| b"ACGT"[k % 4]));
                    input.push(b'\n');
                }
                Fmt::Fastq => {
                    input.extend_from_slice(b"@L\n");
                    input.extend((0..l).map(|k| b"ACGT"[k % 4]));
                    input.extend_from_slice(b"\n+\n");
                    input.extend((0..l).map(|_| b'I'));
                    input.push(b'\n');
                }
            }
        }
    }
    let warm_bytes = input.len() / 2;
    rep.evaluations += 1;
    let mut j = ctx.replay_json(idx);
    j["format"] = json!(fmt.name());
    j["capacity"] = json!(cap);
    j["mode"] = json!("reused record set, batches of >65536 tiny records alternating with batches of ~150 long records");
    let res = guarded(|| -> (u64, u64, usize, bool) {
        let mut batches = 0usize;
        let mut largest = 0usize;
        let (a, r, cap_changed);
        match fmt {
            Fmt::Fasta => {
                let mut rdr = fasta::Reader::with_capacity(&input[..], cap);
                let mut set = fasta::RecordSet::default();
                let mut consumed = 0usize;
                while consumed < warm_bytes {
                    match rdr.read_record_set(&mut set) {
                        Some(Ok(())) => {
                            largest = largest.max(set.len());
                            consumed += (&set).into_iter().map(|x| x.head().len() + x.seq().len() + 3).sum::<usize>();
                        }
                        _ => break,
                    }
                }
                let cap0 = rdr.verif_capacity();
                crate::alloc::arm();
                while let Some(Ok(())) = rdr.read_record_set(&mut set) {
                    batches += 1;
                    std::hint::black_box(set.len());
                }
                let (x, y, _) = crate::alloc::disarm();
                a = x;
                r = y;
                cap_changed = rdr.verif_capacity() != cap0;
            }
            Fmt::Fastq => {
                let mut rdr = fastq::Reader::with_capacity(&input[..], cap);
                let mut set = fastq::RecordSet::default();
                let mut consumed = 0usize;
                while consumed < warm_bytes {
                    match rdr.read_record_set(&mut set) {
                        Some(Ok(())) => {
                            largest = largest.max(set.len());
                            consumed += (&set).into_iter().map(|x| x.head().len() + 2 * x.seq().len() + 6).sum::<usize>();
                        }
                        _ => break,
                    }
                }
                let cap0 = rdr.verif_capacity();
                crate::alloc::arm();
                while let Some(Ok(())) = rdr.read_record_set(&mut set) {
                    batches += 1;
                    std::hint::black_box(set.len());
                }
                let (x, y, _) = crate::alloc::disarm();
                a = x;
                r = y;
                cap_changed = rdr.verif_capacity() != cap0;
            }
        }
        let _ = largest;
        (a, r, batches, cap_changed)
    });
    match res {
        Err(c) => crate::m_basic::caught_violation(rep, &c, "reading alternating batches", j),
        Ok((a, r, batches, cap_changed)) => {
            rep.map("mode", &format!("{}:record_set:alternating-huge-and-small-batches", fmt.name()));
            rep.add("measured_batches_of_alternating_sizes", batches as u64);
            if batches > 0 && a + r > 0 {
                rep.violation(
                    &format!("{}-set-allocates", fmt.name()),
                    format!("{} allocations and {} reallocations while reading {} batches after two full cycles of huge and small batches", a, r, batches),
                    j.clone(),
                );
            }
            if cap_changed {
                rep.violation(&format!("{}-capacity-changed", fmt.name()), "the buffer capacity changed in the steady state".into(), j);
            }
        }
    }
}

pub fn c18(ctx: &Ctx, rep: &mut Report) {
    let mut idx = ctx.only.unwrap_or(0);
    loop {
        if ctx.only.is_none() && (ctx.expired() || idx >= ctx.max_cases) {
            break;
        }
        ctx.begin(idx);
        let mut rng = Rng::derive(&[ctx.seed, ctx.shard, idx, 18]);
        let fmt = if idx % 2 == 0 { Fmt::Fasta } else { Fmt::Fastq };
        if !ctx.miri && (idx == 10 || idx == 11) {
            c18_alternating_batches(ctx, rep, idx, fmt);
            if ctx.only.is_some() {
                break;
            }
            idx += 1;
            continue;
        }
        if !ctx.miri && (idx % 16 == 8 || idx % 16 == 9) {
            c18_after_seek(ctx, rep, idx, fmt, &mut rng);
            if ctx.only.is_some() {
                break;
            }
            idx += 1;
            continue;
        }
        let sets = idx % 4 >= 2;
        // FASTA records with hundreds of sequence lines (every 8th FASTA case)
        let many_lines = fmt == Fmt::Fasta && idx % 16 >= 12 && !ctx.miri;
        // once per shard and read mode: identical records of 70 000 resp. 1 100 000 one-letter lines
        // (a line index larger than the data buffer)
        let giant_lines = fmt == Fmt::Fasta && !ctx.miri && (idx == 4 || idx == 6);
        let cap = if ctx.miri {
            64
        } else if many_lines || giant_lines {
            65536
        } else {
            *rng.pick(&[64usize, 100, 256, 1000, 4096, 65536])
        };
        let max_rec = (cap / 4).clamp(10, 2000);
        let max_lines = if giant_lines {
            if ctx.shard % 2 == 0 { 70_000 } else { 1_100_000 }
        } else if many_lines {
            rng.range(260, 700)
        } else {
            4
        };
        let rec_size = if giant_lines {
            max_lines
        } else if many_lines {
            max_lines * rng.range(2, 12)
        } else {
            rng.range(10, max_rec)
        };
        // enough records for >= 6 buffer fills (half warm-up, half measured), at least 40
        let n = if giant_lines { 8 } else { ((14 * cap) / rec_size + 2).max(40).min(if ctx.miri { 60 } else { 100_000 }) };
        let warm = n / 2;
        let ends_mode = if giant_lines { 0 } else { (idx / 16) % 4 };
        rep.map("line_ends", ["lf", "lf", "crlf", "mixed-inside-records"][ends_mode as usize]);
        let mut input = vec![];
        let mut sizes = vec![];
        for i in 0..n {
            // identical records for record sets; variable (bounded by the warm-up maxima) for next()
            let (sz, nlines) = if giant_lines {
                (rec_size, max_lines)
            } else if sets {
                (rec_size, if many_lines { max_lines } else { 1 + (rec_size % 3) })
            } else if i < warm {
                if i == 3 { (rec_size, max_lines) } else { (rng.range(8, rec_size), 1 + rng.below(max_lines)) }
            } else {
                (rng.range(8, rec_size), 1 + rng.below(max_lines))
            };
            sizes.push(sz);
            // line ends: LF (half of the cases), CRLF, or a mixture inside every record
            let t = |line_no: usize| -> &'static [u8] {
                match ends_mode {
                    2 => b"\r\n",
                    3 => {
                        // which lines of a record end in CRLF varies from record to record (all 16 patterns
                        // over the first four lines)
                        if ((i * 5 + 3) >> (line_no % 4)) & 1 == 1 {
                            b"\r\n"
                        } else {
                            b"\n"
                        }
                    }
                    _ => b"\n",
                }
            };
            match fmt {
                Fmt::Fasta => {
                    input.extend_from_slice(format!(">r{} d", i % 10).as_bytes());
                    input.extend_from_slice(t(0));
                    let per = (sz / nlines).max(1);
                    for ln in 0..nlines {
                        input.extend((0..per).map(|k| b"ACGT"[k % 4]));
                        input.extend_from_slice(t(ln + 1));
                    }
                }
                Fmt::Fastq => {
                    let s = (sz / 2).max(1);
                    input.extend_from_slice(format!("@r{} d", i % 10).as_bytes());
                    input.extend_from_slice(t(0));
                    input.extend((0..s).map(|k| b"ACGT"[k % 4]));
                    input.extend_from_slice(t(1));
                    input.push(b'+');
                    input.extend_from_slice(t(2));
                    input.extend((0..s).map(|_| b'I'));
                    input.extend_from_slice(t(3));
                }
            }
        }
        let grows = std::rc::Rc::new(std::cell::Cell::new(0usize));
        rep.evaluations += 1;
        let replay = || {
            let mut j = ctx.replay_json(idx);
            j["format"] = json!(fmt.name());
            j["capacity"] = json!(cap);
            j["records"] = json!(n);
            j["record_size"] = json!(rec_size);
            j["record_sets"] = json!(sets);
            j
        };
        // (allocations, reallocs, grow calls in window, capacity change, views outside buffer, measured records, applicable)
        let res = guarded(|| -> (u64, u64, usize, bool, u64, u64, bool) {
            let mut outside = 0u64;
            let mut measured = 0u64;
            match (fmt, sets) {
                (Fmt::Fasta, false) => {
                    let mut rdr = fasta::Reader::with_capacity(&input[..], cap).set_policy(CountPolicy(grows.clone()));
                    for _ in 0..warm {
                        let _ = rdr.next();
                    }
                    let cap0 = rdr.verif_capacity();
                    let g0 = grows.get();
                    crate::alloc::arm();
                    while let Some(Ok(rec)) = rdr.next() {
                        measured += 1;
                        let _ = (rec.head().len(), rec.seq().len());
                        let mut l = 0;
                        for line in rec.seq_lines() {
                            l += line.len();
                        }
                        std::hint::black_box(l);
                    }
                    let (a, r, _) = crate::alloc::disarm();
                    // views are checked in a second, unmeasured pass
                    let mut rdr2 = fasta::Reader::with_capacity(&input[..], cap);
                    for _ in 0..n {
                        if let Some(Ok(rec)) = rdr2.next() {
                            let (h, s) = (rec.head().as_ptr() as usize, rec.head().len());
                            let sq = rec.seq();
                            let (sp, sl) = (sq.as_ptr() as usize, sq.len());
                            let lines: Vec<(usize, usize)> = rec.seq_lines().map(|l| (l.as_ptr() as usize, l.len())).collect();
                            let buf = rdr2.verif_buffer();
                            let (b0, b1) = (buf.as_ptr() as usize, buf.as_ptr() as usize + buf.len());
                            let ins = |p: usize, l: usize| l == 0 || (p >= b0 && p + l <= b1);
                            if !ins(h, s) || !ins(sp, sl) || lines.iter().any(|(p, l)| !ins(*p, *l)) {
                                outside += 1;
                            }
                        }
                    }
                    (a, r, grows.get() - g0, rdr.verif_capacity() != cap0, outside, measured, true)
                }
                (Fmt::Fastq, false) => {
                    let mut rdr = fastq::Reader::with_capacity(&input[..], cap).set_policy(CountPolicy(grows.clone()));
                    for _ in 0..warm {
                        let _ = rdr.next();
                    }
                    let cap0 = rdr.verif_capacity();
                    let g0 = grows.get();
                    crate::alloc::arm();
                    while let Some(Ok(rec)) = rdr.next() {
                        measured += 1;
                        std::hint::black_box((rec.head().len(), rec.seq().len(), rec.qual().len()));
                    }
                    let (a, r, _) = crate::alloc::disarm();
                    let mut rdr2 = fastq::Reader::with_capacity(&input[..], cap);
                    for _ in 0..n {
                        if let Some(Ok(rec)) = rdr2.next() {
                            let v = [
                                (rec.head().as_ptr() as usize, rec.head().len()),
                                (rec.seq().as_ptr() as usize, rec.seq().len()),
                                (rec.qual().as_ptr() as usize, rec.qual().len()),
                            ];
                            let buf = rdr2.verif_buffer();
                            let (b0, b1) = (buf.as_ptr() as usize, buf.as_ptr() as usize + buf.len());
                            if v.iter().any(|(p, l)| *l > 0 && !(*p >= b0 && p + l <= b1)) {
                                outside += 1;
                            }
                        }
                    }
                    (a, r, grows.get() - g0, rdr.verif_capacity() != cap0, outside, measured, true)
                }
                (Fmt::Fasta, true) => {
                    let mut rdr = fasta::Reader::with_capacity(&input[..], cap).set_policy(CountPolicy(grows.clone()));
                    let mut set = fasta::RecordSet::default();
                    let mut batches: Vec<usize> = vec![];
                    let mut seen = 0;
                    while seen < warm {
                        match rdr.read_record_set(&mut set) {
                            Some(Ok(())) => {
                                seen += set.len();
                                batches.push(set.len());
                            }
                            _ => break,
                        }
                    }
                    let warm_max = batches.iter().copied().max().unwrap_or(0);
                    let cap0 = rdr.verif_capacity();
                    let g0 = grows.get();
                    let setcap0 = set.buf_capacity();
                    let mut meas_max = 0;
                    crate::alloc::arm();
                    while let Some(Ok(())) = rdr.read_record_set(&mut set) {
                        meas_max = meas_max.max(set.len());
                        for rec in &set {
                            measured += 1;
                            if !inside(set.verif_buffer(), rec.head()) || !inside(set.verif_buffer(), rec.seq()) {
                                outside += 1;
                            }
                            let mut l = 0;
                            for line in rec.seq_lines() {
                                l += line.len();
                            }
                            std::hint::black_box(l);
                        }
                    }
                    let (a, r, _) = crate::alloc::disarm();
                    let applicable = meas_max <= warm_max && batches.len() >= 3;
                    let changed = rdr.verif_capacity() != cap0 || set.buf_capacity() != setcap0;
                    (a, r, grows.get() - g0, changed, outside, measured, applicable)
                }
                (Fmt::Fastq, true) => {
                    let mut rdr = fastq::Reader::with_capacity(&input[..], cap).set_policy(CountPolicy(grows.clone()));
                    let mut set = fastq::RecordSet::default();
                    let mut batches: Vec<usize> = vec![];
                    let mut seen = 0;
                    while seen < warm {
                        match rdr.read_record_set(&mut set) {
                            Some(Ok(())) => {
                                seen += set.len();
                                batches.push(set.len());
                            }
                            _ => break,
                        }
                    }
                    let warm_max = batches.iter().copied().max().unwrap_or(0);
                    let cap0 = rdr.verif_capacity();
                    let g0 = grows.get();
                    let setcap0 = set.buf_capacity();
                    let mut meas_max = 0;
                    crate::alloc::arm();
                    while let Some(Ok(())) = rdr.read_record_set(&mut set) {
                        meas_max = meas_max.max(set.len());
                        for rec in &set {
                            measured += 1;
                            if !inside(set.verif_buffer(), rec.head())
                                || !inside(set.verif_buffer(), rec.seq())
                                || !inside(set.verif_buffer(), rec.qual())
                            {
                                outside += 1;
                            }
                        }
                    }
                    let (a, r, _) = crate::alloc::disarm();
                    let applicable = meas_max <= warm_max && batches.len() >= 3;
                    let changed = rdr.verif_capacity() != cap0 || set.buf_capacity() != setcap0;
                    (a, r, grows.get() - g0, changed, outside, measured, applicable)
                }
            }
        });
        crate::alloc::disarm();
        match res {
            Err(c) => crate::m_basic::caught_violation(rep, &c, "steady-state reading", replay()),
            Ok((a, r, g, changed, outside, measured, applicable)) => {
                rep.map("mode", &format!("{}:{}{}", fmt.name(), if sets { "record_set" } else { "next" }, if giant_lines { ":giant-lines" } else if many_lines { ":many-lines" } else { "" }));
                if !applicable {
                    rep.count("not_applicable_batch_grew");
                } else {
                    rep.add("measured_records", measured);
                    if a + r > 0 {
                        rep.violation(
                            &format!("{}-{}-allocates", fmt.name(), if sets { "set" } else { "next" }),
                            format!("{} allocations and {} reallocations while reading {} records after the warm-up", a, r, measured),
                            replay(),
                        );
                    }
                    if g > 0 || changed {
                        rep.violation(
                            &format!("{}-{}-capacity-changed", fmt.name(), if sets { "set" } else { "next" }),
                            format!("{} growth requests / capacity changed: {} in the measured window", g, changed),
                            replay(),
                        );
                    }
                    if outside > 0 {
                        rep.violation(
                            &format!("{}-{}-view-outside-buffer", fmt.name(), if sets { "set" } else { "next" }),
                            format!("{} records with a view outside the buffer", outside),
                            replay(),
                        );
                    }
                    if measured > 0 {
                        let mut h = Fnv::new();
                        h.bytes(&input[..input.len().min(4096)]).u64(cap as u64).u64(sets as u64).u64(n as u64);
                        rep.nontrivial.insert(h.finish());
                        if rep.want_sample() {
                            rep.sample(json!({"format": fmt.name(), "capacity": cap, "records": n, "warm_up": warm,
                                "record_size_max": rec_size, "record_sets": sets, "measured_records": measured,
                                "allocations_in_window": a + r}));
                        }
                    }
                }
            }
        }
        if ctx.only.is_some() {
            break;
        }
        idx += 1;
    }
}

// ---------------------------------------------------------------------------
// C19 — serialisation

fn json_rt<T: serde::Serialize + serde::de::DeserializeOwned>(v: &T) -> Result<T, String> {
    let s = serde_json::to_vec(v).map_err(|e| e.to_string())?;
    serde_json::from_slice(&s).map_err(|e| e.to_string())
}

fn cbor_rt<T: serde::Serialize + serde::de::DeserializeOwned>(v: &T) -> Result<T, String> {
    let mut s = vec![];
    ciborium::ser::into_writer(v, &mut s).map_err(|e| e.to_string())?;
    ciborium::de::from_reader(&s[..]).map_err(|e| e.to_string())
}

/// compact, not self-describing format (see `vbin.rs`): fields travel by position only
fn vbin_rt<T: serde::Serialize + serde::de::DeserializeOwned>(v: &T) -> Result<T, String> {
    let s = crate::vbin::to_vec(v).map_err(|e| e.to_string())?;
    crate::vbin::from_slice(&s).map_err(|e| e.to_string())
}

/// structs as maps keyed by field index / by field name as bytes (see `vbin::StructMode`)
fn keyed_rt<T: serde::Serialize + serde::de::DeserializeOwned>(v: &T, mode: crate::vbin::StructMode) -> Result<T, String> {
    let s = crate::vbin::to_vec_mode(v, mode).map_err(|e| format!("{:?}: {}", mode, e))?;
    crate::vbin::from_slice_mode(&s, mode).map_err(|e| format!("{:?}: {}", mode, e))
}

const KEYED: [crate::vbin::StructMode; 2] = [crate::vbin::StructMode::IndexKeys, crate::vbin::StructMode::ByteKeys];

fn fa_set_eq(a: &fasta::RecordSet, b: &fasta::RecordSet) -> Result<usize, String> {
    if a.len() != b.len() {
        return Err(format!("len {} vs {}", a.len(), b.len()));
    }
    let mut n = 0;
    let mut ib = b.into_iter();
    for ra in a {
        let rb = ib.next().ok_or("deserialised set iterates fewer records")?;
        if ra.head() != rb.head() || ra.seq() != rb.seq() || ra.seq_lines().collect::<Vec<_>>() != rb.seq_lines().collect::<Vec<_>>() {
            return Err(format!("record {} differs", n));
        }
        n += 1;
    }
    if ib.next().is_some() {
        return Err("deserialised set iterates more records".into());
    }
    Ok(n)
}

fn fq_set_eq(a: &fastq::RecordSet, b: &fastq::RecordSet) -> Result<usize, String> {
    if a.len() != b.len() {
        return Err(format!("len {} vs {}", a.len(), b.len()));
    }
    let mut n = 0;
    let mut ib = b.into_iter();
    for ra in a {
        let rb = ib.next().ok_or("deserialised set iterates fewer records")?;
        if ra.head() != rb.head() || ra.seq() != rb.seq() || ra.qual() != rb.qual() {
            return Err(format!("record {} differs", n));
        }
        n += 1;
    }
    if ib.next().is_some() {
        return Err("deserialised set iterates more records".into());
    }
    Ok(n)
}

/// deserialise `v`'s serialised form INTO `place` (an object that has held other values), through JSON
/// and through the compact format
fn in_place_rt<T: serde::Serialize + serde::de::DeserializeOwned>(v: &T, place: &mut T, which: u8) -> Result<(), String> {
    if which == 0 {
        let s = serde_json::to_vec(v).map_err(|e| e.to_string())?;
        let mut de = serde_json::Deserializer::from_slice(&s);
        serde::Deserialize::deserialize_in_place(&mut de, place).map_err(|e| format!("json in place: {}", e))
    } else {
        let mode = [crate::vbin::StructMode::Positional, crate::vbin::StructMode::IndexKeys][(which as usize - 1) % 2];
        let s = crate::vbin::to_vec_mode(v, mode).map_err(|e| e.to_string())?;
        crate::vbin::from_slice_in_place(&s, mode, place).map_err(|e| format!("compact in place: {}", e))
    }
}

pub fn c19(ctx: &Ctx, rep: &mut Report) {
    // targets of deserialize_in_place: they live as long as the shard and have held the sets of earlier inputs
    let mut place_fa = fasta::RecordSet::default();
    let mut place_fq = fastq::RecordSet::default();
    let mut idx = ctx.only.unwrap_or(0);
    loop {
        if ctx.only.is_none() && (ctx.expired() || idx >= ctx.max_cases) {
            break;
        }
        ctx.begin(idx);
        let mut rng = Rng::derive(&[ctx.seed, ctx.shard, idx, 19]);
        let fmt = if idx % 2 == 0 { Fmt::Fasta } else { Fmt::Fastq };
        let replay = ctx.replay_json(idx);
        // --- owned records with arbitrary bytes
        let rb = |rng: &mut Rng, max: usize| -> Vec<u8> {
            let n = rng.skewed(max);
            (0..n).map(|_| rng.next() as u8).collect()
        };
        for _ in 0..4 {
            rep.evaluations += 1;
            let res: Result<(), String> = match fmt {
                Fmt::Fasta => {
                    let r = fasta::OwnedRecord { head: rb(&mut rng, 30), seq: rb(&mut rng, 60) };
                    json_rt(&r).and_then(|x| if x == r { Ok(()) } else { Err("json: owned record differs".into()) })
                        .and_then(|_| cbor_rt(&r).and_then(|x| if x == r { Ok(()) } else { Err("cbor: owned record differs".into()) }))
                        .and_then(|_| vbin_rt(&r).map_err(|e| format!("compact: {}", e)).and_then(|x| if x == r { Ok(()) } else { Err("compact: owned record differs".into()) }))
                        .and_then(|_| KEYED.iter().try_for_each(|m| keyed_rt(&r, *m).and_then(|x| if x == r { Ok(()) } else { Err(format!("{:?}: owned record differs", m)) })))
                }
                Fmt::Fastq => {
                    let r = fastq::OwnedRecord { head: rb(&mut rng, 30), seq: rb(&mut rng, 60), qual: rb(&mut rng, 60) };
                    json_rt(&r).and_then(|x| if x == r { Ok(()) } else { Err("json: owned record differs".into()) })
                        .and_then(|_| cbor_rt(&r).and_then(|x| if x == r { Ok(()) } else { Err("cbor: owned record differs".into()) }))
                        .and_then(|_| vbin_rt(&r).map_err(|e| format!("compact: {}", e)).and_then(|x| if x == r { Ok(()) } else { Err("compact: owned record differs".into()) }))
                        .and_then(|_| KEYED.iter().try_for_each(|m| keyed_rt(&r, *m).and_then(|x| if x == r { Ok(()) } else { Err(format!("{:?}: owned record differs", m)) })))
                }
            };
            rep.add("owned_records_roundtripped", 5);
            if let Err(m) = res {
                rep.violation(&format!("{}-owned-record", fmt.name()), m, replay.clone());
            }
        }
        // --- record sets from the reader: all capacities / batch ends, reused sets
        let (bytes, _) = crate::m_basic::seeded_input(&mut rng, fmt, ctx.shard);
        let r = fmt.reference(&bytes);
        let cap = gen::gen_cap(&mut rng, bytes.len(), &r.recs.iter().map(|x| x.extent()).collect::<Vec<_>>());
        let exact = if rng.chance(1, 3) { Some(1 + rng.below(5)) } else { None };
        let mut j = replay.clone();
        j["input"] = json!(show(&bytes));
        j["input_hex"] = json!(gen::hex_limited(&bytes));
        j["capacity"] = json!(cap);
        j["exact"] = json!(exact);
        let res = guarded(|| -> Result<(u64, u64, usize), String> {
            let mut sets = 0u64;
            let mut stale = 0u64;
            let mut largest = 0usize;
            match fmt {
                Fmt::Fasta => {
                    let mut rdr = fasta::Reader::with_capacity(&bytes[..], cap);
                    let mut set = fasta::RecordSet::default();
                    // the empty set
                    fa_set_eq(&set, &json_rt(&set)?)?;
                    fa_set_eq(&set, &cbor_rt(&set)?)?;
                    fa_set_eq(&set, &vbin_rt(&set).map_err(|e| format!("compact: {}", e))?).map_err(|e| format!("compact: {}", e))?;
                    let mut max_before = 0;
                    while let Some(Ok(())) = rdr.read_record_set_exact(&mut set, exact) {
                        if set.len() < max_before {
                            stale += 1;
                        }
                        max_before = max_before.max(set.len());
                        largest = largest.max(set.len());
                        let a = json_rt(&set)?;
                        fa_set_eq(&set, &a).map_err(|e| format!("json: {}", e))?;
                        let b = cbor_rt(&set)?;
                        fa_set_eq(&set, &b).map_err(|e| format!("cbor: {}", e))?;
                        let c = vbin_rt(&set).map_err(|e| format!("compact: {}", e))?;
                        fa_set_eq(&set, &c).map_err(|e| format!("compact: {}", e))?;
                        // a clone of the set serialises like the set
                        let d = vbin_rt(&set.clone()).map_err(|e| format!("compact(clone): {}", e))?;
                        fa_set_eq(&set, &d).map_err(|e| format!("compact(clone): {}", e))?;
                        for m in KEYED {
                            let k = keyed_rt(&set, m)?;
                            fa_set_eq(&set, &k).map_err(|e| format!("{:?}: {}", m, e))?;
                        }
                        in_place_rt(&set, &mut place_fa, (sets % 3) as u8)?;
                        fa_set_eq(&set, &place_fa).map_err(|e| format!("deserialised in place into a used set: {}", e))?;
                        sets += 6;
                    }
                }
                Fmt::Fastq => {
                    let mut rdr = fastq::Reader::with_capacity(&bytes[..], cap);
                    let mut set = fastq::RecordSet::default();
                    fq_set_eq(&set, &json_rt(&set)?)?;
                    fq_set_eq(&set, &cbor_rt(&set)?)?;
                    fq_set_eq(&set, &vbin_rt(&set).map_err(|e| format!("compact: {}", e))?).map_err(|e| format!("compact: {}", e))?;
                    let mut max_before = 0;
                    while let Some(Ok(())) = rdr.read_record_set_exact(&mut set, exact) {
                        if set.len() < max_before {
                            stale += 1;
                        }
                        max_before = max_before.max(set.len());
                        largest = largest.max(set.len());
                        let a = json_rt(&set)?;
                        fq_set_eq(&set, &a).map_err(|e| format!("json: {}", e))?;
                        let b = cbor_rt(&set)?;
                        fq_set_eq(&set, &b).map_err(|e| format!("cbor: {}", e))?;
                        let c = vbin_rt(&set).map_err(|e| format!("compact: {}", e))?;
                        fq_set_eq(&set, &c).map_err(|e| format!("compact: {}", e))?;
                        let d = vbin_rt(&set.clone()).map_err(|e| format!("compact(clone): {}", e))?;
                        fq_set_eq(&set, &d).map_err(|e| format!("compact(clone): {}", e))?;
                        for m in KEYED {
                            let k = keyed_rt(&set, m)?;
                            fq_set_eq(&set, &k).map_err(|e| format!("{:?}: {}", m, e))?;
                        }
                        in_place_rt(&set, &mut place_fq, (sets % 3) as u8)?;
                        fq_set_eq(&set, &place_fq).map_err(|e| format!("deserialised in place into a used set: {}", e))?;
                        sets += 6;
                    }
                }
            }
            Ok((sets, stale, largest))
        });
        rep.evaluations += 1;
        match res {
            Err(c) => crate::m_basic::caught_violation(rep, &c, "record set serialisation", j),
            Ok(Err(m)) => rep.violation(&format!("{}-record-set", fmt.name()), m, j),
            Ok(Ok((sets, stale, largest))) => {
                rep.add("record_sets_roundtripped", sets);
                rep.add("reused_sets_with_stale_offsets", stale);
                rep.max("largest_set", largest as u64);
                if sets > 0 {
                    let mut h = Fnv::new();
                    h.bytes(&bytes).u64(cap as u64).u64(exact.unwrap_or(0) as u64);
                    rep.nontrivial.insert(h.finish());
                    if rep.want_sample() && bytes.len() < 120 {
                        rep.sample(json!({"format": fmt.name(), "input": show(&bytes), "capacity": cap, "sets_roundtripped": sets, "formats": ["json", "cbor", "compact positional (vbin)", "vbin with integer field keys", "vbin with byte-string field keys"]}));
                    }
                }
            }
        }
        if ctx.only.is_some() {
            break;
        }
        idx += 1;
    }
}

// ---------------------------------------------------------------------------
// C20 — iterator contracts

/// walks a double-ended exact-size iterator against a deque model; `steps` bit i:
/// 0 = front, 1 = back
fn walk<'a, I>(mut it: I, expect: &[&'a [u8]], steps: u64, nsteps: usize) -> Result<(), String>
where
    I: DoubleEndedIterator<Item = &'a [u8]> + ExactSizeIterator,
{
    let mut model: VecDeque<&[u8]> = expect.iter().copied().collect();
    let check_len = |it: &I, model: &VecDeque<&[u8]>, k: usize| -> Result<(), String> {
        let r = model.len();
        if it.len() != r {
            return Err(format!("after {} steps len() is {} but {} items remain", k, it.len(), r));
        }
        let (lo, hi) = it.size_hint();
        if lo > r || hi.map_or(false, |h| h < r) {
            return Err(format!("after {} steps size_hint() is {:?} but {} items remain", k, (lo, hi), r));
        }
        if (lo, hi) != (r, Some(r)) {
            return Err(format!("after {} steps size_hint() is {:?}, an exact-size iterator must report ({}, Some({}))", k, (lo, hi), r, r));
        }
        Ok(())
    };
    check_len(&it, &model, 0)?;
    for k in 0..nsteps {
        let back = (steps >> k) & 1 == 1;
        let (got, want) = if back {
            (it.next_back(), model.pop_back())
        } else {
            (it.next(), model.pop_front())
        };
        if got != want {
            return Err(format!(
                "step {} ({}): got {:?}, expected {:?}",
                k,
                if back { "back" } else { "front" },
                got.map(show),
                want.map(show)
            ));
        }
        check_len(&it, &model, k + 1)?;
    }
    Ok(())
}

/// walk with the positional methods: nth / nth_back with arguments around the remaining
/// length, interleaved with single steps, against the deque model
fn walk_nth<'a, I>(mut it: I, expect: &[&'a [u8]], rng: &mut Rng) -> Result<(), String>
where
    I: DoubleEndedIterator<Item = &'a [u8]> + ExactSizeIterator,
{
    let mut model: VecDeque<&[u8]> = expect.iter().copied().collect();
    for step in 0..expect.len() + 3 {
        let rem = model.len();
        let arg = match rng.below(5) {
            0 => 0,
            1 => rem.saturating_sub(1),
            2 => rem,
            3 => rem + 1,
            _ => rng.below(rem + 1),
        };
        let (name, got, want): (&str, Option<&[u8]>, Option<&[u8]>) = match rng.below(4) {
            0 => ("next", it.next(), model.pop_front()),
            1 => ("next_back", it.next_back(), model.pop_back()),
            2 => {
                let g = it.nth(arg);
                let w = if arg < rem {
                    for _ in 0..arg {
                        model.pop_front();
                    }
                    model.pop_front()
                } else {
                    model.clear();
                    None
                };
                ("nth", g, w)
            }
            _ => {
                let g = it.nth_back(arg);
                let w = if arg < rem {
                    for _ in 0..arg {
                        model.pop_back();
                    }
                    model.pop_back()
                } else {
                    model.clear();
                    None
                };
                ("nth_back", g, w)
            }
        };
        if got != want {
            return Err(format!(
                "step {}: {}({}) with {} items remaining returned {:?}, expected {:?}",
                step,
                name,
                arg,
                rem,
                got.map(show),
                want.map(show)
            ));
        }
        if it.len() != model.len() {
            return Err(format!("after {}({}) len() is {} but {} items remain", name, arg, it.len(), model.len()));
        }
    }
    Ok(())
}

/// consuming methods after a prefix of front/back steps
fn check_terminal_ops(rec: &fasta::RefRecord, lines: &[&[u8]]) -> Result<(), String> {
    let n = lines.len();
    for f in 0..=n.min(3) {
        for b in 0..=(n - f).min(3) {
            let mk = || {
                let mut it = rec.seq_lines();
                for _ in 0..f {
                    it.next();
                }
                for _ in 0..b {
                    it.next_back();
                }
                it
            };
            let rest = &lines[f..n - b];
            if mk().count() != rest.len() {
                return Err(format!("count() after {} front / {} back steps is {}, {} items remain", f, b, mk().count(), rest.len()));
            }
            if mk().last() != rest.last().copied() {
                return Err(format!("last() after {} front / {} back steps", f, b));
            }
            let fw: Vec<&[u8]> = mk().fold(vec![], |mut v, x| {
                v.push(x);
                v
            });
            if fw != rest {
                return Err(format!("fold() after {} front / {} back steps", f, b));
            }
            let bw: Vec<&[u8]> = mk().rfold(vec![], |mut v, x| {
                v.push(x);
                v
            });
            if bw != rest.iter().rev().copied().collect::<Vec<_>>() {
                return Err(format!("rfold() after {} front / {} back steps", f, b));
            }
            for k in sampled_ks(rest.len()) {
                let got: Vec<&[u8]> = mk().rev().skip(k).collect();
                let want: Vec<&[u8]> = rest.iter().rev().skip(k).copied().collect();
                if got != want {
                    return Err(format!("rev().skip({}) after {} front / {} back steps yields {} items, expected {}", k, f, b, got.len(), want.len()));
                }
                if mk().rev().nth(k) != rest.iter().rev().nth(k).copied() {
                    return Err(format!("rev().nth({}) after {} front / {} back steps", k, f, b));
                }
                if k >= 1 {
                    let got: Vec<&[u8]> = mk().step_by(k).collect();
                    let want: Vec<&[u8]> = rest.iter().step_by(k).copied().collect();
                    if got != want {
                        return Err(format!("step_by({}) after {} front / {} back steps", k, f, b));
                    }
                    let got: Vec<&[u8]> = mk().rev().step_by(k).collect();
                    let want: Vec<&[u8]> = rest.iter().rev().step_by(k).copied().collect();
                    if got != want {
                        return Err(format!("rev().step_by({}) after {} front / {} back steps", k, f, b));
                    }
                }
            }
            if mk().rposition(|x| x.is_empty()) != rest.iter().rposition(|x| x.is_empty()) {
                return Err(format!("rposition() after {} front / {} back steps", f, b));
            }
        }
    }
    Ok(())
}

/// every k in 0..=n+1 for ordinary records; for very long ones the values around both ends, the
/// middle and the 8-/16-bit boundaries (the callers do linear work per k)
fn sampled_ks(n: usize) -> Vec<usize> {
    if n <= 200 {
        return (0..=n + 1).collect();
    }
    let mut v = vec![0, 1, 2, 255, 256, 257, n / 2, 65_534, 65_535, 65_536, 65_537, n - 1, n, n + 1];
    v.retain(|k| *k <= n + 1);
    v.sort();
    v.dedup();
    v
}

fn check_adaptors(rec: &fasta::RefRecord, lines: &[&[u8]]) -> Result<(), String> {
    let n = lines.len();
    let er: Vec<(usize, &[u8])> = rec.seq_lines().enumerate().rev().collect();
    let want: Vec<(usize, &[u8])> = lines.iter().copied().enumerate().rev().collect();
    if er != want {
        return Err(format!("enumerate().rev() yields {:?}", er.iter().map(|x| x.0).collect::<Vec<_>>()));
    }
    let rv: Vec<&[u8]> = rec.seq_lines().rev().collect();
    if rv != lines.iter().rev().copied().collect::<Vec<_>>() {
        return Err("rev() yields other items".into());
    }
    for k in sampled_ks(n) {
        let s = rec.seq_lines().skip(k);
        if s.len() != n.saturating_sub(k) {
            return Err(format!("skip({}).len() is {}", k, s.len()));
        }
        // after partially consuming
        let mut it = rec.seq_lines();
        for _ in 0..k.min(n) {
            it.next();
        }
        let e: Vec<(usize, &[u8])> = it.enumerate().rev().collect();
        let w: Vec<(usize, &[u8])> = lines[k.min(n)..].iter().copied().enumerate().rev().collect();
        if e != w {
            return Err(format!("after {} items, enumerate().rev() yields indices {:?}", k.min(n), e.iter().map(|x| x.0).collect::<Vec<_>>()));
        }
    }
    let z: Vec<(&[u8], &[u8])> = rec.seq_lines().zip(rec.seq_lines().rev()).collect();
    if z.len() != n {
        return Err("zip length".into());
    }
    let c: Vec<&[u8]> = rec.seq_lines().collect();
    if c != lines {
        return Err("collect() yields other items".into());
    }
    Ok(())
}

pub fn c20(ctx: &Ctx, rep: &mut Report) {
    let mut idx = ctx.only.unwrap_or(0);
    loop {
        if ctx.only.is_none() && (ctx.expired() || idx >= ctx.max_cases) {
            break;
        }
        ctx.begin(idx);
        let mut rng = Rng::derive(&[ctx.seed, ctx.shard, idx, 20]);
        let replay = |extra: serde_json::Value| {
            let mut j = ctx.replay_json(idx);
            j["detail"] = extra;
            j
        };
        // --- SeqLines: a record with k lines (k = 0..=6 exhaustive walks, more lines seeded)
        let g = idx * ctx.nshards + ctx.shard;
        // now and then a record with more lines than a 16-bit length holds
        let huge = !ctx.miri && g >= 7 && rng.chance(1, 3000);
        let k = if g < 7 {
            g as usize
        } else if huge {
            65_530 + rng.below(200)
        } else {
            rng.below(if ctx.miri { 5 } else { 14 })
        };
        let crlf = rng.chance(1, 3);
        let t: &[u8] = if crlf { b"\r\n" } else { b"\n" };
        let mut input = b">id desc".to_vec();
        input.extend_from_slice(t);
        let mut lines_owned: Vec<Vec<u8>> = vec![];
        for i in 0..k {
            let l: Vec<u8> = if rng.chance(1, 6) { vec![] } else { (0..1 + rng.below(6)).map(|x| b"ACGT"[(x + i) % 4]).collect() };
            input.extend_from_slice(&l);
            input.extend_from_slice(t);
            lines_owned.push(l);
        }
        input.extend_from_slice(b">next\nA\n");
        let lines: Vec<&[u8]> = lines_owned.iter().map(|l| &l[..]).collect();
        let exhaustive = k <= 6 && !ctx.miri;
        let res = guarded(|| -> Result<u64, String> {
            let mut rdr = fasta::Reader::new(&input[..]);
            let rec = rdr.next().ok_or("no record")?.map_err(|e| e.to_string())?;
            let mut walks = 0u64;
            let nsteps = k + 2;
            if exhaustive {
                for steps in 0..(1u64 << nsteps) {
                    walk(rec.seq_lines(), &lines, steps, nsteps)?;
                    walks += 1;
                }
            } else if huge {
                // the step-by-step walker takes its front/back choices from a 64-bit mask: first 60 steps only
                for _ in 0..4 {
                    walk(rec.seq_lines(), &lines, rng.next(), 60)?;
                    walks += 1;
                }
            } else {
                for _ in 0..(if ctx.miri { 4 } else { 64 }) {
                    walk(rec.seq_lines(), &lines, rng.next(), nsteps)?;
                    walks += 1;
                }
            }
            check_adaptors(&rec, &lines)?;
            for _ in 0..(if ctx.miri { 2 } else { 24 }) {
                walk_nth(rec.seq_lines(), &lines, &mut rng)?;
                walks += 1;
            }
            check_terminal_ops(&rec, &lines)?;
            Ok(walks)
        });
        rep.evaluations += 1;
        match res {
            Err(c) => crate::m_basic::caught_violation(rep, &c, "SeqLines", replay(json!({"input": show(&input)}))),
            Ok(Err(m)) => rep.violation("seqlines-contract", m, replay(json!({"input": show(&input), "lines": k}))),
            Ok(Ok(w)) => {
                rep.add("seqlines_walks", w);
                rep.add("seqlines_steps", w * (k as u64 + 2));
                if exhaustive {
                    rep.count("exhaustive_walk_sets");
                }
                if k == 0 {
                    rep.count("zero_line_records");
                }
                if huge {
                    rep.count("records_with_more_than_65535_lines");
                }
                let mut h = Fnv::new();
                h.bytes(&input);
                rep.nontrivial.insert(h.finish());
                if rep.want_sample() && k >= 2 {
                    rep.sample(json!({"input": show(&input), "lines": k, "walks": w, "exhaustive": exhaustive}));
                }
            }
        }
        // --- record-set iterators and owned-record iterators of a reader
        let fmt = if idx % 2 == 0 { Fmt::Fasta } else { Fmt::Fastq };
        let (bytes, _) = crate::m_basic::seeded_input(&mut rng, fmt, ctx.shard);
        let r = fmt.reference(&bytes);
        let cap = gen::gen_cap(&mut rng, bytes.len(), &r.recs.iter().map(|x| x.extent()).collect::<Vec<_>>());
        let res = guarded(|| -> Result<u64, String> {
            let mut iters = 0u64;
            macro_rules! check_set_iter {
                ($set:expr) => {{
                    let n = $set.len();
                    if $set.into_iter().count() != n {
                        return Err(format!("record-set iterator: count() is {} for a set of {} records", $set.into_iter().count(), n));
                    }
                    if $set.into_iter().last().is_some() != (n > 0) {
                        return Err("record-set iterator: last()".into());
                    }
                    for k in [0usize, n.saturating_sub(1), n, n + 1] {
                        let mut it = $set.into_iter();
                        let got = it.nth(k).is_some();
                        if got != (k < n) {
                            return Err(format!("record-set iterator: nth({}) of {} records is {}", k, n, if got { "present" } else { "missing" }));
                        }
                        let left = it.count();
                        if left != n.saturating_sub(k + 1) {
                            return Err(format!("record-set iterator: {} items after nth({}) of {}", left, k, n));
                        }
                    }
                    let mut it = $set.into_iter();
                    for taken in 0..=n + 2 {
                        let rem = n.saturating_sub(taken);
                        let (lo, hi) = it.size_hint();
                        if lo > rem || hi.map_or(false, |h| h < rem) {
                            return Err(format!("record-set iterator: size_hint {:?} with {} records left", (lo, hi), rem));
                        }
                        let x = it.next();
                        if x.is_some() != (taken < n) {
                            return Err(format!("record-set iterator: item {} of {} is {}", taken, n, if x.is_some() { "present" } else { "missing" }));
                        }
                    }
                    iters += 1;
                }};
            }
            macro_rules! check_owned_iter {
                ($it:expr, $total:expr) => {{
                    let mut it = $it;
                    let mut got = 0usize;
                    let mut err_seen = false;
                    loop {
                        let (lo, hi) = it.size_hint();
                        let rem = $total.saturating_sub(got);
                        // the iterator may also yield one error item (if the input has an invalid record
                        // and the error has not come yet)
                        let extra = if r.has_err() && !err_seen { 1 } else { 0 };
                        if lo > rem + extra || hi.map_or(false, |h| h < rem) {
                            return Err(format!("owned-record iterator: size_hint {:?} with {} records left", (lo, hi), rem));
                        }
                        match it.next() {
                            Some(Ok(_)) => got += 1,
                            Some(Err(_)) => err_seen = true,
                            None => break,
                        }
                        if got > $total + bytes.len() + 5 {
                            return Err("owned-record iterator does not end".into());
                        }
                    }
                    for _ in 0..3 {
                        if it.next().is_some() {
                            return Err("owned-record iterator yields an item after reporting the end".into());
                        }
                    }
                    iters += 1;
                }};
            }
            match fmt {
                Fmt::Fasta => {
                    let mut rdr = fasta::Reader::with_capacity(&bytes[..], cap);
                    let mut set = fasta::RecordSet::default();
                    check_set_iter!(&set);
                    while let Some(Ok(())) = rdr.read_record_set(&mut set) {
                        check_set_iter!(&set);
                    }
                    let total = r.recs.len();
                    let mut rdr = fasta::Reader::with_capacity(&bytes[..], cap);
                    check_owned_iter!(rdr.records(), total);
                    let rdr = fasta::Reader::with_capacity(&bytes[..], cap);
                    check_owned_iter!(rdr.into_records(), total);
                    if !r.has_err() {
                        // the same iterators created on a reader that has already delivered records
                        // through next(), a record set, or an exact-count read of everything left
                        for mode in 0..6 {
                            let mut rdr = fasta::Reader::with_capacity(&bytes[..], cap);
                            let mut delivered = 0usize;
                            match mode % 3 {
                                0 => {
                                    for _ in 0..1 + rng.below(3) {
                                        if let Some(Ok(_)) = rdr.next() {
                                            delivered += 1;
                                        }
                                    }
                                }
                                1 => {
                                    if let Some(Ok(())) = rdr.read_record_set(&mut set) {
                                        delivered += set.len();
                                    }
                                }
                                _ => {
                                    let n = if mode == 2 { total.max(1) } else { 1 + rng.below(total + 1) };
                                    if let Some(Ok(())) = rdr.read_record_set_exact(&mut set, Some(n)) {
                                        delivered += set.len();
                                    }
                                }
                            }
                            if mode < 3 {
                                check_owned_iter!(rdr.records(), total - delivered.min(total));
                            } else {
                                check_owned_iter!(rdr.into_records(), total - delivered.min(total));
                            }
                            rep.count("owned_iterators_created_mid_stream");
                        }
                    }
                }
                Fmt::Fastq => {
                    let mut rdr = fastq::Reader::with_capacity(&bytes[..], cap);
                    let mut set = fastq::RecordSet::default();
                    check_set_iter!(&set);
                    while let Some(Ok(())) = rdr.read_record_set(&mut set) {
                        check_set_iter!(&set);
                    }
                    let total = r.recs.len();
                    let mut rdr = fastq::Reader::with_capacity(&bytes[..], cap);
                    check_owned_iter!(rdr.records(), total);
                    let rdr = fastq::Reader::with_capacity(&bytes[..], cap);
                    check_owned_iter!(rdr.into_records(), total);
                    if !r.has_err() {
                        // the same iterators created on a reader that has already delivered records
                        // through next(), a record set, or an exact-count read of everything left
                        for mode in 0..6 {
                            let mut rdr = fastq::Reader::with_capacity(&bytes[..], cap);
                            let mut delivered = 0usize;
                            match mode % 3 {
                                0 => {
                                    for _ in 0..1 + rng.below(3) {
                                        if let Some(Ok(_)) = rdr.next() {
                                            delivered += 1;
                                        }
                                    }
                                }
                                1 => {
                                    if let Some(Ok(())) = rdr.read_record_set(&mut set) {
                                        delivered += set.len();
                                    }
                                }
                                _ => {
                                    let n = if mode == 2 { total.max(1) } else { 1 + rng.below(total + 1) };
                                    if let Some(Ok(())) = rdr.read_record_set_exact(&mut set, Some(n)) {
                                        delivered += set.len();
                                    }
                                }
                            }
                            if mode < 3 {
                                check_owned_iter!(rdr.records(), total - delivered.min(total));
                            } else {
                                check_owned_iter!(rdr.into_records(), total - delivered.min(total));
                            }
                            rep.count("owned_iterators_created_mid_stream");
                        }
                    }
                }
            }
            Ok(iters)
        });
        rep.evaluations += 1;
        match res {
            Err(c) => crate::m_basic::caught_violation(rep, &c, "reader iterators", replay(json!({"input": show(&bytes), "capacity": cap}))),
            Ok(Err(m)) => rep.violation(&format!("{}-iterator-contract", fmt.name()), m, replay(json!({"input": show(&bytes), "capacity": cap}))),
            Ok(Ok(n)) => rep.add("reader_iterators_walked", n),
        }
        if ctx.only.is_some() {
            break;
        }
        idx += 1;
    }
}
