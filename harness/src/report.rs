//! Per-shard report: counters, coverage maps, samples, violations. Printed as one
//! JSON line that the driver (`check.py`) merges over all shards.

use serde_json::{json, Map, Value};
use std::cell::RefCell;
use std::collections::{BTreeMap, HashSet};
use std::panic;
use std::sync::Once;

#[derive(Default)]
pub struct Report {
    pub property: String,
    pub evaluations: u64,
    /// signatures of the distinct non-trivial cases seen
    pub nontrivial: HashSet<u64>,
    pub counters: BTreeMap<String, u64>,
    pub maps: BTreeMap<String, BTreeMap<String, u64>>,
    pub samples: Vec<Value>,
    pub max_samples: usize,
    pub violations: Vec<Value>,
    pub n_violations: u64,
    pub inconclusive: Vec<String>,
    pub notes: Vec<String>,
}

impl Report {
    pub fn new(property: &str) -> Report {
        Report {
            property: property.to_string(),
            max_samples: 4,
            ..Default::default()
        }
    }

    #[inline]
    pub fn count(&mut self, key: &str) {
        self.add(key, 1);
    }

    #[inline]
    pub fn add(&mut self, key: &str, n: u64) {
        if let Some(c) = self.counters.get_mut(key) {
            *c += n;
        } else {
            self.counters.insert(key.to_string(), n);
        }
    }

    pub fn max(&mut self, key: &str, v: u64) {
        let c = self.counters.entry(key.to_string()).or_insert(0);
        if v > *c {
            *c = v;
        }
    }

    pub fn map(&mut self, map: &str, key: &str) {
        self.map_add(map, key, 1);
    }

    pub fn map_add(&mut self, map: &str, key: &str, n: u64) {
        let m = if let Some(m) = self.maps.get_mut(map) {
            m
        } else {
            self.maps.insert(map.to_string(), BTreeMap::new());
            self.maps.get_mut(map).unwrap()
        };
        if let Some(c) = m.get_mut(key) {
            *c += n;
        } else {
            m.insert(key.to_string(), n);
        }
    }

    pub fn sample(&mut self, v: Value) {
        if self.samples.len() < self.max_samples {
            self.samples.push(v);
        }
    }

    pub fn want_sample(&self) -> bool {
        self.samples.len() < self.max_samples
    }

    /// `sig` identifies the kind of violation (used for known findings and for
    /// de-duplication); `what` is the human description; `replay` is self-contained
    pub fn violation(&mut self, sig: &str, what: String, replay: Value) {
        // a panic whose location is a file of the harness itself (relative path `src/...`; the crate under
        // test and its dependencies are compiled from absolute paths) is a bug of the harness, not a
        // finding: the run is inconclusive
        if sig.contains("panic@") {
            let loc = what.rsplit(" at ").next().unwrap_or("");
            if loc.starts_with("src/") {
                if self.inconclusive.len() < 5 {
                    self.inconclusive.push(format!("panic inside the harness ({}): {}", loc, &what[..what.len().min(300)]));
                }
                self.count("harness_panics");
                return;
            }
        }
        let what = if what.len() > 3000 {
            let mut cut = 3000;
            while !what.is_char_boundary(cut) {
                cut -= 1;
            }
            format!("{}... ({} bytes)", &what[..cut], what.len())
        } else {
            what
        };
        self.n_violations += 1;
        self.map("violation_signatures", sig);
        // keep the first few per signature
        let same = self
            .violations
            .iter()
            .filter(|v| v["sig"].as_str() == Some(sig))
            .count();
        if same < 3 && self.violations.len() < 40 {
            self.violations.push(json!({
                "property": self.property,
                "sig": sig,
                "what": what,
                "replay": replay,
            }));
        }
    }

    pub fn to_json(&self) -> Value {
        let mut maps = Map::new();
        for (k, m) in &self.maps {
            maps.insert(k.clone(), json!(m));
        }
        json!({
            "property": self.property,
            "evaluations": self.evaluations,
            "distinct_nontrivial": self.nontrivial.len(),
            "counters": self.counters,
            "maps": maps,
            "samples": self.samples,
            "violations": self.violations,
            "n_violations": self.n_violations,
            "inconclusive": self.inconclusive,
            "notes": self.notes,
        })
    }

    pub fn print(&self) {
        println!("VERIF-REPORT {}", self.to_json());
    }
}

// ---------------------------------------------------------------------------
// panic capture

thread_local! {
    static LAST_PANIC: RefCell<Option<String>> = const { RefCell::new(None) };
    static QUIET: RefCell<bool> = const { RefCell::new(false) };
}

static HOOK: Once = Once::new();
static GLOBAL_QUIET: std::sync::atomic::AtomicBool = std::sync::atomic::AtomicBool::new(false);

/// silences the default panic output of every thread (pipeline monitors: panics of
/// pool threads are caught and reported by the monitor)
pub fn set_global_quiet(q: bool) {
    install_panic_hook();
    GLOBAL_QUIET.store(q, std::sync::atomic::Ordering::SeqCst);
}

/// Installs a panic hook that records message and location in a thread-local
/// instead of printing when the panicking thread asked for quiet mode.
pub fn install_panic_hook() {
    HOOK.call_once(|| {
        let default = panic::take_hook();
        panic::set_hook(Box::new(move |info| {
            let msg = if let Some(s) = info.payload().downcast_ref::<&str>() {
                s.to_string()
            } else if let Some(s) = info.payload().downcast_ref::<String>() {
                s.clone()
            } else {
                "<non-string panic payload>".to_string()
            };
            let loc = info
                .location()
                .map(|l| format!("{}:{}", l.file(), l.line()))
                .unwrap_or_else(|| "<unknown>".into());
            let quiet = QUIET.with(|q| *q.borrow()) || GLOBAL_QUIET.load(std::sync::atomic::Ordering::Relaxed);
            LAST_PANIC.with(|p| *p.borrow_mut() = Some(format!("{} at {}", msg, loc)));
            if !quiet {
                default(info);
            }
        }));
    });
}

#[derive(Debug, Clone)]
pub enum Caught {
    /// a panic of the code under test (message with location)
    Panic(String),
    /// a logical budget of the monitor tripped: the code under test does not terminate
    Budget(String),
}

/// Runs `f`, catching panics quietly.
pub fn guarded<T>(f: impl FnOnce() -> T) -> Result<T, Caught> {
    install_panic_hook();
    QUIET.with(|q| *q.borrow_mut() = true);
    LAST_PANIC.with(|p| *p.borrow_mut() = None);
    let r = panic::catch_unwind(panic::AssertUnwindSafe(f));
    QUIET.with(|q| *q.borrow_mut() = false);
    match r {
        Ok(v) => Ok(v),
        Err(_) => {
            let msg = LAST_PANIC
                .with(|p| p.borrow_mut().take())
                .unwrap_or_else(|| "<panic>".into());
            if msg.contains(crate::src::BUDGET_MSG) {
                Err(Caught::Budget(msg))
            } else {
                Err(Caught::Panic(msg))
            }
        }
    }
}

/// location part of a panic message with the line number removed and the path
/// shortened (stable signature)
pub fn panic_sig(msg: &str) -> String {
    let loc = msg.rsplit(" at ").next().unwrap_or("");
    let file = loc.rsplit('/').next().unwrap_or(loc);
    let file = file.split(':').next().unwrap_or(file);
    format!("panic@{}", file)
}
