//! Shared machinery of the sequential monitors: reader construction, the
//! representation invariants checked at the snapshot hook, simple transcripts.

use crate::api::{AnyReader, Obs};
use crate::gen::Config;
use crate::refmodel::Fmt;
use crate::report::{guarded, Caught};
use crate::src::{Fault, PolLog, PolSpec, RecPolicy, Src, SrcLog};
use std::cell::RefCell;
use std::rc::Rc;
use std::time::Instant;

pub struct Ctx {
    pub prop: String,
    pub tier_thorough: bool,
    pub seed: u64,
    pub shard: u64,
    pub nshards: u64,
    pub deadline: Instant,
    pub max_cases: u64,
    /// run exactly this case index (replay)
    pub only: Option<u64>,
    pub verbose: bool,
    /// running under Miri: shrink every workload
    pub miri: bool,
}

/// index of the case the monitor is executing (read by the stuck-case monitor)
pub static CURRENT_CASE: std::sync::atomic::AtomicU64 = std::sync::atomic::AtomicU64::new(u64::MAX);

fn process_cpu_ticks() -> u64 {
    if let Ok(s) = std::fs::read_to_string("/proc/self/stat") {
        if let Some(p) = s.rfind(')') {
            let rest: Vec<&str> = s[p + 1..].split_whitespace().collect();
            if rest.len() > 13 {
                return rest[11].parse::<u64>().unwrap_or(0) + rest[12].parse::<u64>().unwrap_or(0);
            }
        }
    }
    0
}

/// With `VERIF_TRACE_CASES=1` every case announces itself on stderr before it runs. The driver
/// re-runs a shard that died from a signal (memory corruption in the code under test) in
/// this mode to learn which case killed it.
pub fn trace_case(idx: u64) {
    use std::sync::atomic::{AtomicU8, Ordering};
    static TRACE: AtomicU8 = AtomicU8::new(2);
    let mut t = TRACE.load(Ordering::Relaxed);
    if t == 2 {
        t = std::env::var("VERIF_TRACE_CASES").map(|v| v == "1").unwrap_or(false) as u8;
        TRACE.store(t, Ordering::Relaxed);
    }
    if t == 1 {
        eprintln!("VERIF-CASE {}", idx);
    }
}

/// A case that consumes more than `limit_s` seconds of CPU time (about 10^7 times the
/// normal cost of a case) does not terminate: the helper thread reports it as a
/// violation with the case as replay and ends the process. CPU time, not wall time, so
/// machine load cannot cause it. Covers loops in the code under test that touch neither
/// the source nor the policy (those have logical budgets of their own).
pub fn start_stuck_monitor(replay: serde_json::Value, prop: String, limit_s: u64) {
    if cfg!(miri) {
        return;
    }
    std::thread::spawn(move || {
        let mut last_case = u64::MAX;
        let mut cpu_at_change = process_cpu_ticks();
        loop {
            std::thread::sleep(std::time::Duration::from_millis(500));
            let c = CURRENT_CASE.load(std::sync::atomic::Ordering::Relaxed);
            let cpu = process_cpu_ticks();
            if c != last_case {
                last_case = c;
                cpu_at_change = cpu;
                continue;
            }
            if c != u64::MAX && cpu.saturating_sub(cpu_at_change) > limit_s * 100 {
                let mut r = replay.clone();
                r["index"] = serde_json::json!(c);
                let v = serde_json::json!({
                    "property": prop, "evaluations": 1, "distinct_nontrivial": 0, "counters": {}, "maps": {"violation_signatures": {"no-termination": 1}},
                    "samples": [], "inconclusive": [], "notes": [], "n_violations": 1,
                    "violations": [{"property": prop, "sig": "no-termination",
                        "what": format!("case {} consumed more than {} s of CPU time without finishing: the code under test does not terminate", c, limit_s),
                        "replay": r}],
                });
                println!("VERIF-REPORT {}", v);
                std::process::exit(0);
            }
        }
    });
}

impl Ctx {
    /// marks the start of case `idx`
    #[inline]
    pub fn begin(&self, idx: u64) {
        CURRENT_CASE.store(idx, std::sync::atomic::Ordering::Relaxed);
        trace_case(idx);
    }
    pub fn expired(&self) -> bool {
        Instant::now() >= self.deadline
    }
    pub fn replay_json(&self, idx: u64) -> serde_json::Value {
        serde_json::json!({
            "property": self.prop,
            "tier": if self.tier_thorough { "thorough" } else { "quick" },
            "seed": self.seed,
            "shard": self.shard,
            "nshards": self.nshards,
            "index": idx,
        })
    }
}

pub struct Rig {
    pub reader: Option<AnyReader>,
    pub src: Rc<RefCell<SrcLog>>,
    pub pol: Rc<RefCell<PolLog>>,
    pub input: Rc<Vec<u8>>,
    pub initial_cap: usize,
    pub policy_generation: usize,
    /// lf_before[i] = number of LF in input[..i], filled on first use
    lf_before: RefCell<Vec<u32>>,
}

pub fn make_rig(fmt: Fmt, input: Rc<Vec<u8>>, cfg: &Config, faults: Vec<Fault>) -> Rig {
    let (src, src_log) = Src::new(
        input.clone(),
        cfg.chunking.clone(),
        cfg.interrupts.clone(),
        faults,
        cfg.cap,
    );
    let pol_log = Rc::new(RefCell::new(PolLog {
        calls: vec![],
        budget: input.len() + 64,
        budget_tripped: false,
        stalled: 0,
    }));
    let policy = RecPolicy::new(&cfg.policy, 0, pol_log.clone());
    let reader = AnyReader::new(fmt, src, cfg.cap, policy);
    Rig {
        reader: Some(reader),
        src: src_log,
        pol: pol_log,
        input,
        initial_cap: cfg.cap,
        policy_generation: 0,
        lf_before: RefCell::new(vec![]),
    }
}

impl Rig {
    pub fn r(&mut self) -> &mut AnyReader {
        self.reader.as_mut().unwrap()
    }
    pub fn rr(&self) -> &AnyReader {
        self.reader.as_ref().unwrap()
    }
    pub fn begin_op(&self) {
        self.src.borrow_mut().calls_this_op = 0;
    }
    pub fn set_policy(&mut self, spec: &PolSpec) {
        self.policy_generation += 1;
        let p = RecPolicy::new(spec, self.policy_generation, self.pol.clone());
        let r = self.reader.take().unwrap();
        self.reader = Some(r.set_policy(p));
    }
    pub fn grow_calls(&self) -> usize {
        self.pol.borrow().calls.len()
    }

    fn lf_before(&self, upto: usize) -> u32 {
        let mut t = self.lf_before.borrow_mut();
        if t.is_empty() {
            let mut n = 0u32;
            t.reserve(self.input.len() + 1);
            t.push(0);
            for b in self.input.iter() {
                if *b == b'\n' {
                    n += 1;
                }
                t.push(n);
            }
        }
        t[upto]
    }

    /// Representation invariants at a quiescent point (DESIGN 4.6). Only valid
    /// while no fault was injected and no policy refused.
    pub fn check_invariants(&self) -> Result<(), (String, String)> {
        let rd = self.rr();
        let snap = rd.snapshot();
        let buf = rd.buffer();
        let src = self.src.borrow();
        let input = &self.input[..];
        // INV-W: the buffer is the window of the input just delivered
        if buf.len() > src.pos || buf != &input[src.pos - buf.len()..src.pos] {
            return Err((
                "INV-W".into(),
                format!(
                    "buffer is not the input window ending at the source cursor {} (buffer {:?})",
                    src.pos,
                    crate::gen::show(buf)
                ),
            ));
        }
        let win_start = src.pos - buf.len();
        let tracked = matches!(snap.state, "Parsing" | "Positioned" | "Incomplete");
        // INV-B
        if snap.buf_len > snap.capacity || (tracked && snap.rec_start > snap.buf_len) {
            return Err((
                "INV-B".into(),
                format!("offsets outside the buffer: {:?}", snap),
            ));
        }
        if rd.fmt() == Fmt::Fasta && tracked {
            if snap.offsets.iter().any(|o| *o > snap.buf_len)
                || snap.search_pos.map_or(false, |s| s > snap.buf_len)
            {
                return Err((
                    "INV-B".into(),
                    format!("offsets outside the buffer: {:?}", snap),
                ));
            }
        }
        // INV-C
        let expect_cap = self
            .pol
            .borrow()
            .calls
            .iter()
            .rev()
            .find_map(|c| c.2)
            .unwrap_or(self.initial_cap);
        if self.rr().policy_generation() != self.policy_generation {
            return Err((
                "INV-C".into(),
                format!(
                    "policy() hands out policy object #{} but #{} was installed last",
                    self.rr().policy_generation(),
                    self.policy_generation
                ),
            ));
        }
        if snap.capacity != expect_cap {
            return Err((
                "INV-C".into(),
                format!(
                    "capacity {} but initial/last policy answer is {}",
                    snap.capacity, expect_cap
                ),
            ));
        }
        // INV-P / INV-L
        if tracked {
            let expect_byte = (win_start + snap.rec_start) as u64;
            if snap.pos_byte != expect_byte {
                return Err((
                    "INV-P".into(),
                    format!(
                        "stored byte offset {} but the current record starts at input offset {} ({:?})",
                        snap.pos_byte, expect_byte, snap
                    ),
                ));
            }
            let upto = (snap.pos_byte as usize).min(input.len());
            let expect_line = 1 + self.lf_before(upto) as u64;
            if snap.pos_line != expect_line {
                return Err((
                    "INV-L".into(),
                    format!(
                        "stored line {} but offset {} lies on line {}",
                        snap.pos_line, snap.pos_byte, expect_line
                    ),
                ));
            }
        }
        Ok(())
    }
}

/// Result of reading an input with `next()` until it has reported a terminal
/// answer three times
pub struct Transcript {
    pub obs: Vec<Obs>,
    /// `position()` after each call
    pub positions: Vec<Option<(u64, u64)>>,
    pub caught: Option<Caught>,
    pub inv_failure: Option<(String, String)>,
    pub read_calls: usize,
    pub grow_calls: usize,
    pub interrupts: usize,
    pub full_lf_tail: usize,
    pub full_cr_tail: usize,
    pub final_cap: usize,
}

#[derive(Clone, Copy, PartialEq, Eq, Debug)]
pub enum Via {
    Next,
    Records,
    IntoRecords,
}

pub fn transcript(
    fmt: Fmt,
    input: &Rc<Vec<u8>>,
    cfg: &Config,
    via: Via,
    max_calls: usize,
    invariants: bool,
) -> Transcript {
    let mut rig = make_rig(fmt, input.clone(), cfg, vec![]);
    let mut t = Transcript {
        obs: vec![],
        positions: vec![],
        caught: None,
        inv_failure: None,
        read_calls: 0,
        grow_calls: 0,
        interrupts: 0,
        full_lf_tail: 0,
        full_cr_tail: 0,
        final_cap: cfg.cap,
    };
    if via == Via::IntoRecords {
        let reader = rig.reader.take().unwrap();
        match guarded(move || reader.into_records_all(max_calls)) {
            Ok(v) => t.obs = v,
            Err(c) => t.caught = Some(c),
        }
    } else {
        let mut terminal = 0;
        for _ in 0..max_calls {
            rig.begin_op();
            let res = guarded(|| match via {
                Via::Next => rig.r().next(),
                _ => rig.r().owned_step(),
            });
            match res {
                Err(c) => {
                    t.caught = Some(c);
                    break;
                }
                Ok(o) => {
                    let term = !matches!(o, Obs::Rec(_));
                    t.obs.push(o);
                    t.positions.push(rig.rr().position());
                    if invariants && t.inv_failure.is_none() {
                        if let Err(e) = rig.check_invariants() {
                            t.inv_failure = Some(e);
                        }
                        let rd = rig.rr();
                        let b = rd.buffer();
                        if b.len() == rd.capacity() {
                            match b.last() {
                                Some(b'\n') => t.full_lf_tail += 1,
                                Some(b'\r') => t.full_cr_tail += 1,
                                _ => {}
                            }
                        }
                    }
                    if term {
                        terminal += 1;
                        if terminal == 3 {
                            break;
                        }
                    }
                }
            }
        }
        t.final_cap = rig.rr().capacity();
    }
    let s = rig.src.borrow();
    t.read_calls = s.read_calls;
    t.interrupts = s.interrupts;
    t.grow_calls = rig.pol.borrow().calls.len();
    t
}
