//! Reference models of the two formats, written from the documented rules and
//! sharing no code with the crate: split at LF, classify lines. No buffers, no
//! resumable state.

use std::io;

/// A record as the format rules define it
#[derive(Clone, Debug, PartialEq, Eq)]
pub struct RRec {
    pub head: Vec<u8>,
    /// FASTA: sequence lines; FASTQ: exactly one element
    pub lines: Vec<Vec<u8>>,
    pub qual: Option<Vec<u8>>,
    /// FASTA `seq()` of a borrowed record (with inner line terminators)
    pub raw_seq: Vec<u8>,
    /// 1-based line of the header
    pub line: u64,
    /// byte offset of the first byte
    pub byte: u64,
    /// offset of the next record start (or of the end of input)
    pub end: usize,
    /// what `write_unchanged` has to produce
    pub unchanged: Vec<u8>,
}

impl RRec {
    pub fn extent(&self) -> usize {
        self.end - self.byte as usize
    }
    pub fn seq_concat(&self) -> Vec<u8> {
        self.lines.concat()
    }
}

/// A format error as the rules define it
#[derive(Clone, Debug, PartialEq, Eq)]
pub enum RErr {
    InvalidStart { line: u64, found: u8 },
    InvalidSep { line: u64, found: u8, id: Vec<u8> },
    Unequal { line: u64, seq: usize, qual: usize, id: Vec<u8> },
    UnexpectedEnd { line: u64, id: Option<Vec<u8>> },
}

/// An error as observed from the crate (normalised over both formats)
#[derive(Clone, Debug, PartialEq, Eq)]
pub enum ErrObs {
    Io { kind: io::ErrorKind, msg: String },
    InvalidStart { line: u64, found: u8, id: Option<String> },
    InvalidSep { line: u64, found: u8, id: Option<String> },
    Unequal { line: u64, seq: usize, qual: usize, id: Option<String> },
    UnexpectedEnd { line: u64, id: Option<String> },
    BufferLimit,
}

impl ErrObs {
    pub fn kind_name(&self) -> &'static str {
        match self {
            ErrObs::Io { .. } => "Io",
            ErrObs::InvalidStart { .. } => "InvalidStart",
            ErrObs::InvalidSep { .. } => "InvalidSep",
            ErrObs::Unequal { .. } => "UnequalLengths",
            ErrObs::UnexpectedEnd { .. } => "UnexpectedEnd",
            ErrObs::BufferLimit => "BufferLimit",
        }
    }
    pub fn is_parse(&self) -> bool {
        !matches!(self, ErrObs::Io { .. } | ErrObs::BufferLimit)
    }
}

fn lossy_id(bytes: &[u8]) -> String {
    let id = bytes.split(|b| *b == b' ').next().unwrap();
    String::from_utf8_lossy(id).into_owned()
}

/// Does an observed error match a reference error? `id: None` in the
/// observation is always accepted (the statement says "when given").
/// `check_fields == false` compares only the kind (C02), `true` all fields (C17).
pub fn err_matches(obs: &ErrObs, r: &RErr, check_fields: bool) -> bool {
    let id_ok = |o: &Option<String>, r: Option<&Vec<u8>>| match (o, r) {
        (None, _) => true,
        (Some(s), Some(r)) => *s == lossy_id(r),
        (Some(_), None) => false,
    };
    match (obs, r) {
        (ErrObs::InvalidStart { line, found, id }, RErr::InvalidStart { line: rl, found: rf }) => {
            !check_fields || (line == rl && found == rf && id.is_none())
        }
        (
            ErrObs::InvalidSep { line, found, id },
            RErr::InvalidSep {
                line: rl,
                found: rf,
                id: rid,
            },
        ) => !check_fields || (line == rl && found == rf && id_ok(id, Some(rid))),
        (
            ErrObs::Unequal { line, seq, qual, id },
            RErr::Unequal {
                line: rl,
                seq: rs,
                qual: rq,
                id: rid,
            },
        ) => !check_fields || (line == rl && seq == rs && qual == rq && id_ok(id, Some(rid))),
        (ErrObs::UnexpectedEnd { line, id }, RErr::UnexpectedEnd { line: rl, id: rid }) => {
            !check_fields || (line == rl && id_ok(id, rid.as_ref()))
        }
        _ => false,
    }
}

#[inline]
pub fn trim1(l: &[u8]) -> &[u8] {
    match l.split_last() {
        Some((&b'\r', rest)) => rest,
        _ => l,
    }
}

/// A physical line: `[start, end)` is the content without the LF
#[derive(Clone, Copy, Debug)]
pub struct Line {
    pub start: usize,
    pub end: usize,
    pub has_lf: bool,
}

impl Line {
    /// offset just behind the line and its terminator
    pub fn next(&self) -> usize {
        self.end + self.has_lf as usize
    }
}

/// Splits at LF; the piece after the last LF is a line only if it is non-empty
pub fn split_lines(input: &[u8], from: usize) -> Vec<Line> {
    let mut out = vec![];
    let mut start = from;
    for (i, &b) in input.iter().enumerate().skip(from) {
        if b == b'\n' {
            out.push(Line {
                start,
                end: i,
                has_lf: true,
            });
            start = i + 1;
        }
    }
    if start < input.len() {
        out.push(Line {
            start,
            end: input.len(),
            has_lf: false,
        });
    }
    out
}

/// The reference stream of an input: records, then an optional terminal error
#[derive(Clone, Debug, Default)]
pub struct RefStream {
    pub recs: Vec<RRec>,
    /// any one of these is a correct terminal error (several rules may be broken at once)
    pub err: Vec<RErr>,
    /// coordinates (line, byte) of the group the error belongs to
    pub err_coords: Option<(u64, u64)>,
    /// FASTQ: the error may also be replaced by the end of input (blank tail of exactly three LF)
    pub err_or_end: bool,
    /// FASTQ: index of records whose verdict is outside the claimed domain
    /// (mixed terminators inside the record); the stream follows the crate's
    /// documented choice (raw line lengths) but the alternative is accepted
    pub lenient_at: Vec<usize>,
    /// the terminal error itself is in the lenient domain (either it or a record
    /// followed by the rest of the stream is acceptable) - such inputs are only
    /// used with monitors that tolerate it
    pub err_lenient: bool,
}

impl RefStream {
    pub fn has_err(&self) -> bool {
        !self.err.is_empty()
    }
    pub fn ambiguous(&self) -> bool {
        !self.lenient_at.is_empty() || self.err_lenient
    }
}

pub fn ref_fasta(input: &[u8]) -> RefStream {
    let lines = split_lines(input, 0);
    let blank = |l: &Line| {
        let c = &input[l.start..l.end];
        c.is_empty() || c == b"\r"
    };
    let mut st = RefStream::default();
    let first = match lines.iter().position(|l| !blank(l)) {
        None => return st,
        Some(i) => i,
    };
    if input[lines[first].start] != b'>' {
        st.err.push(RErr::InvalidStart {
            line: first as u64 + 1,
            found: input[lines[first].start],
        });
        st.err_coords = Some((first as u64 + 1, lines[first].start as u64));
        return st;
    }
    let mut i = first;
    while i < lines.len() {
        // lines[i] starts with '>'
        let h = lines[i];
        // an empty line has start == end and input[start] is its LF, never '>'
        let mut j = i + 1;
        while j < lines.len() && input[lines[j].start] != b'>' {
            j += 1;
        }
        let seq_lines: Vec<Vec<u8>> = lines[i + 1..j]
            .iter()
            .map(|l| trim1(&input[l.start..l.end]).to_vec())
            .collect();
        let raw_seq = if j > i + 1 {
            trim1(&input[lines[i + 1].start..lines[j - 1].end]).to_vec()
        } else {
            vec![]
        };
        let end = if j < lines.len() {
            lines[j].start
        } else {
            input.len()
        };
        // write_unchanged: everything up to (not including) the LF that ends the
        // record (or up to the end of input), a final LF ensured
        let last = lines[j - 1];
        let mut unchanged = input[h.start..last.end].to_vec();
        if unchanged.last() != Some(&b'\n') {
            unchanged.push(b'\n');
        }
        st.recs.push(RRec {
            head: trim1(&input[h.start + 1..h.end]).to_vec(),
            lines: seq_lines,
            qual: None,
            raw_seq,
            line: i as u64 + 1,
            byte: h.start as u64,
            end,
            unchanged,
        });
        i = j;
    }
    st
}

/// One step of the FASTQ rules at offset `p`, whose line number is `line`
#[derive(Clone, Debug)]
pub enum QStep {
    End,
    /// fewer than three LF left and something non-blank in it
    Truncated(Vec<RErr>),
    /// a blank tail with exactly three LF (statement and repository count differently)
    BlankTail3(RErr),
    Group {
        rec: RRec,
        /// rules broken (empty = valid)
        errs: Vec<RErr>,
        /// terminators of sequence and quality line differ: the length verdict is outside the claimed domain
        mixed: bool,
        next: usize,
    },
}

pub fn fastq_step(input: &[u8], p: usize, line: u64) -> QStep {
    let rest = &input[p..];
    if rest.is_empty() {
        return QStep::End;
    }
    // at most the next four lines matter
    let mut ls: Vec<Line> = Vec::with_capacity(4);
    let mut start = p;
    let mut i = p;
    while i < input.len() && ls.len() < 4 {
        if input[i] == b'\n' {
            ls.push(Line {
                start,
                end: i,
                has_lf: true,
            });
            start = i + 1;
        }
        i += 1;
    }
    if ls.len() < 4 && start < input.len() {
        ls.push(Line {
            start,
            end: input.len(),
            has_lf: false,
        });
    }
    // number of LF in the rest, capped at 4
    let n_lf = ls.iter().filter(|l| l.has_lf).count();
    let all_blank = ls.iter().all(|l| trim1(&input[l.start..l.end]).is_empty());
    if n_lf < 3 {
        if all_blank {
            return QStep::End;
        }
        let id = if n_lf >= 1 && ls[0].end > ls[0].start {
            Some(trim1(&input[ls[0].start + 1..ls[0].end]).to_vec())
        } else {
            None
        };
        let mut errs = vec![RErr::UnexpectedEnd {
            line: line + n_lf as u64,
            id: id.clone(),
        }];
        // a truncated group may also break the start rule / the separator rule
        if rest[0] != b'@' {
            errs.push(RErr::InvalidStart {
                line,
                found: rest[0],
            });
        }
        if n_lf == 2 && ls.len() >= 3 && input[ls[2].start] != b'+' {
            errs.push(RErr::InvalidSep {
                line: line + 2,
                found: input[ls[2].start],
                id: id.unwrap_or_default(),
            });
        }
        return QStep::Truncated(errs);
    }
    // L1..L3 end with LF; L4 ends at its LF or at the end of input and may be empty
    let l1 = ls[0];
    let l2 = ls[1];
    let l3 = ls[2];
    let l4 = if ls.len() >= 4 {
        ls[3]
    } else {
        Line {
            start: l3.next(),
            end: input.len(),
            has_lf: false,
        }
    };
    if n_lf == 3 && all_blank && ls.len() == 3 {
        return QStep::BlankTail3(RErr::InvalidStart {
            line,
            found: rest[0],
        });
    }
    let head_full = &input[l1.start..l1.end];
    let head: Vec<u8> = if head_full.is_empty() {
        vec![]
    } else {
        trim1(&head_full[1..]).to_vec()
    };
    let seq = trim1(&input[l2.start..l2.end]).to_vec();
    let qual = trim1(&input[l4.start..l4.end]).to_vec();
    let mut errs = vec![];
    if rest[0] != b'@' {
        errs.push(RErr::InvalidStart {
            line,
            found: rest[0],
        });
    }
    // the byte at the start of the third line region (LF for an empty line)
    let sep_byte = input[l3.start];
    if sep_byte != b'+' {
        errs.push(RErr::InvalidSep {
            line: line + 2,
            found: sep_byte,
            id: head.clone(),
        });
    }
    if seq.len() != qual.len() {
        errs.push(RErr::Unequal {
            line,
            seq: seq.len(),
            qual: qual.len(),
            id: head.clone(),
        });
    }
    let cr2 = input[l2.start..l2.end].last() == Some(&b'\r');
    let cr4 = input[l4.start..l4.end].last() == Some(&b'\r');
    let mixed = l4.has_lf && cr2 != cr4;
    let mut unchanged = input[l1.start..l4.end].to_vec();
    unchanged.push(b'\n');
    let next = l4.next();
    QStep::Group {
        rec: RRec {
            head,
            lines: vec![seq.clone()],
            qual: Some(qual),
            raw_seq: seq,
            line,
            byte: p as u64,
            end: next,
            unchanged,
        },
        errs,
        mixed,
        next,
    }
}

/// Strict walk of the FASTQ rules (trimmed lengths decide). Groups outside the
/// claimed domain (mixed terminators inside the record) are marked in
/// `lenient_at` / `err_lenient`; monitors that need a unique stream skip such inputs,
/// the C02 monitor walks `fastq_step` in lock-step with the observations instead.
pub fn ref_fastq(input: &[u8]) -> RefStream {
    let mut st = RefStream::default();
    let mut p = 0;
    let mut line = 1u64;
    loop {
        match fastq_step(input, p, line) {
            QStep::End => return st,
            QStep::Truncated(errs) => {
                st.err = errs;
                st.err_coords = Some((line, p as u64));
                return st;
            }
            QStep::BlankTail3(e) => {
                st.err = vec![e];
                st.err_coords = Some((line, p as u64));
                st.err_or_end = true;
                return st;
            }
            QStep::Group {
                rec,
                errs,
                mixed,
                next,
            } => {
                let only_len = errs.len() == 1 && matches!(errs[0], RErr::Unequal { .. });
                if mixed && (errs.is_empty() || only_len) {
                    // outside the claimed domain: record and UnequalLengths are both acceptable
                    if errs.is_empty() {
                        st.lenient_at.push(st.recs.len());
                        st.recs.push(rec);
                        p = next;
                        line += 4;
                        continue;
                    }
                    st.err = errs;
                    st.err_coords = Some((line, p as u64));
                    st.err_lenient = true;
                    return st;
                }
                if errs.is_empty() {
                    st.recs.push(rec);
                    p = next;
                    line += 4;
                } else {
                    st.err = errs;
                    st.err_coords = Some((line, p as u64));
                    return st;
                }
            }
        }
    }
}

#[derive(Clone, Copy, Debug, PartialEq, Eq, Hash)]
pub enum Fmt {
    Fasta,
    Fastq,
}

impl Fmt {
    pub fn name(self) -> &'static str {
        match self {
            Fmt::Fasta => "fasta",
            Fmt::Fastq => "fastq",
        }
    }
    pub fn reference(self, input: &[u8]) -> RefStream {
        match self {
            Fmt::Fasta => ref_fasta(input),
            Fmt::Fastq => ref_fastq(input),
        }
    }
}

#[cfg(test)]
mod tests {
    use super::*;

    #[test]
    fn fasta_basic() {
        let s = ref_fasta(b"\n\r\n>a b\r\nAC\nGT\r\n\n>b\n>c\nA");
        assert_eq!(s.recs.len(), 3);
        assert_eq!(s.recs[0].head, b"a b");
        assert_eq!(s.recs[0].lines, vec![b"AC".to_vec(), b"GT".to_vec(), b"".to_vec()]);
        assert_eq!(s.recs[0].raw_seq, b"AC\nGT\r\n".to_vec());
        assert_eq!((s.recs[0].line, s.recs[0].byte), (3, 3));
        assert_eq!(s.recs[1].lines.len(), 0);
        assert_eq!(s.recs[2].lines, vec![b"A".to_vec()]);
        assert_eq!(s.recs[0].unchanged, b">a b\r\nAC\nGT\r\n".to_vec());
        assert_eq!(s.recs[2].unchanged, b">c\nA\n".to_vec());
        let e = ref_fasta(b"\n\nx>a\n");
        assert_eq!(e.err, vec![RErr::InvalidStart { line: 3, found: b'x' }]);
        assert!(ref_fasta(b"\n\r\n\r").recs.is_empty() && !ref_fasta(b"\n\r\n\r").has_err());
    }

    #[test]
    fn fastq_basic() {
        let s = ref_fastq(b"@a x\nAC\n+\nII\n@b\r\nA\r\n+\r\nI");
        assert_eq!(s.recs.len(), 2);
        assert!(!s.has_err());
        assert_eq!(s.recs[1].head, b"b");
        assert_eq!(s.recs[1].qual.as_deref(), Some(&b"I"[..]));
        assert_eq!((s.recs[1].line, s.recs[1].byte), (5, 13));
        let e = ref_fastq(b"@a\nAC\n+\nI\n");
        assert_eq!(
            e.err,
            vec![RErr::Unequal { line: 1, seq: 2, qual: 1, id: b"a".to_vec() }]
        );
        let t = ref_fastq(b"@a\nAC\n+\nII\n@b\nA\n");
        assert_eq!(t.recs.len(), 1);
        assert_eq!(t.err[0], RErr::UnexpectedEnd { line: 7, id: Some(b"b".to_vec()) });
        assert!(!ref_fastq(b"@a\nAC\n+\nII\n\n\n").has_err());
        assert!(ref_fastq(b"@a\nAC\n+\nII\n\n\n\n").err_or_end);
        assert!(ref_fastq(b"@a\nAC\n+\nII\n\n\n\n\n").has_err());
    }
}
