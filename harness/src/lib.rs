//! Runtime monitors for markschl/seq_io — see /verif/DESIGN.md

pub mod alloc;
pub mod api;
pub mod gen;
pub mod hist;
pub mod m_basic;
pub mod m_hist;
pub mod m_misc;
pub mod m_write;
pub mod pipe;
pub mod refmodel;
pub mod report;
pub mod rng;
pub mod seqmon;
pub mod src;
pub mod vbin;
