//! History runner: executes a sequence of operations on one reader and checks
//! every answer against the sequential model of DESIGN 4.6.
//!
//! The model is strict (cursor into the reference stream) until the first error
//! that the model does not predict (injected source error, refusing policy);
//! from then on it degrades to what C06 states: end of input, an error, or
//! genuine records in increasing order.

use crate::api::{AnySet, Obs, RecObs, SetObs};
use crate::gen::{show, Config};
use crate::refmodel::{err_matches, ErrObs, Fmt, RefStream};
use crate::report::{guarded, panic_sig, Caught, Report};
use crate::seqmon::{make_rig, Rig};
use crate::src::{Fault, PolSpec};
use std::rc::Rc;

pub const N_SLOTS: usize = 3;

#[derive(Clone, Debug, PartialEq, Eq)]
pub enum Op {
    Next,
    OwnedStep,
    ReadSet(usize),
    ReadSetExact(usize, usize),
    /// index into the seek targets: 0..N records, N = the invalid group (if any)
    Seek(usize),
    Position,
    SetPolicy(PolSpec),
    IterSlot(usize),
    /// `shrink_buffer_to_fit()` on a slot, then iterate it
    ShrinkSlot(usize),
    /// clone slot a into slot b (`RecordSet: Clone`), then iterate b
    CloneSlot(usize, usize),
    IntoRecords,
}

impl Op {
    pub fn kind(&self) -> &'static str {
        match self {
            Op::Next => "next",
            Op::OwnedStep => "owned",
            Op::ReadSet(_) => "set",
            Op::ReadSetExact(..) => "exact",
            Op::Seek(_) => "seek",
            Op::Position => "position",
            Op::SetPolicy(_) => "setpolicy",
            Op::IterSlot(_) => "iterslot",
            Op::ShrinkSlot(_) => "shrinkslot",
            Op::CloneSlot(..) => "cloneslot",
            Op::IntoRecords => "intorecords",
        }
    }
}

pub struct HCase {
    pub fmt: Fmt,
    pub input: Rc<Vec<u8>>,
    pub cfg: Config,
    pub faults: Vec<Fault>,
    pub ops: Vec<Op>,
    pub reference: RefStream,
}

impl HCase {
    pub fn describe(&self) -> serde_json::Value {
        serde_json::json!({
            "format": self.fmt.name(),
            "input": show(&self.input),
            "input_hex": crate::gen::hex_limited(&self.input),
            "config": self.cfg.describe(),
            "faults": self.faults.iter().map(|f| format!("{:?}", f)).collect::<Vec<_>>(),
            "ops": self.ops.iter().map(|o| format!("{:?}", o)).collect::<Vec<_>>(),
            "reference_records": self.reference.recs.len(),
            "reference_error": format!("{:?}", self.reference.err),
        })
    }
}

/// a deviation found by the runner; `tag` says which property it belongs to
#[derive(Clone, Debug)]
pub struct Deviation {
    pub tag: &'static str,
    pub sig: String,
    pub what: String,
    pub at_op: usize,
}

#[derive(Clone, Debug, PartialEq, Eq)]
enum Cursor {
    At(usize),
    Terminal,
}

#[derive(Clone, Debug)]
enum Slot {
    /// never filled
    Fresh,
    Known(Vec<usize>),
    /// a read into it reported end of input: previous contents or empty
    PrevOrEmpty(Vec<usize>),
    /// a read into it failed
    Unknown,
}

#[derive(Default, Clone, Debug)]
pub struct HStats {
    pub ops_run: usize,
    pub records_delivered: usize,
    pub seeks_in_buffer: usize,
    pub seeks_real: usize,
    pub largest_set: usize,
    pub clone_from_calls: usize,
    pub exact_huge_n: usize,
    pub interrupts_seen: usize,
    pub positions_checked_after_error: usize,
    /// seek targets inside / outside the last `capacity` bytes the source has delivered (a fact about
    /// the workload, independent of whether the reader uses an in-buffer shortcut)
    pub seek_targets_in_window: usize,
    pub seek_targets_outside_window: usize,
    pub injected_seen: usize,
    pub refusals_seen: usize,
    pub degraded: bool,
    pub grow_calls: usize,
    pub read_calls: usize,
    pub seek_calls: usize,
    /// minimum over all growths of (needed size - capacity at that time), i.e. how close to the boundary growth was observed
    pub min_growth_excess: Option<i64>,
    pub exact_short: usize,
    pub exact_grew_with_batch: usize,
    pub positions_checked: usize,
    pub inv_checks: usize,
    pub slots_reverified: usize,
    /// index of the first operation during which the source raised an injected error
    pub first_injected_op: Option<usize>,
    /// BufferLimit answers after which the model stayed strict
    pub limits_kept_strict: usize,
    /// records delivered correctly right after such a BufferLimit (policy switched or stopped refusing)
    pub resumed_after_limit: usize,
}

pub struct HOutcome {
    pub deviations: Vec<Deviation>,
    pub stats: HStats,
    /// one line per op: what was observed
    pub trace: Vec<String>,
}

pub struct RunOpts<'a> {
    /// iterate slots whose last fill failed (C06)
    pub iter_unknown_slots: bool,
    /// check the 'only when needed' clause (histories without exact reads)
    pub necessity: bool,
    pub err_fields: bool,
    pub rep: Option<&'a mut Report>,
}

fn in_order_member(r: &RefStream, last: Option<usize>, o: &RecObs, owned: bool) -> Option<usize> {
    let from = last.map_or(0, |l| l + 1);
    (from..r.recs.len()).find(|k| {
        if owned {
            o.matches_owned(&r.recs[*k])
        } else {
            o.matches(&r.recs[*k])
        }
    })
}

fn any_member(r: &RefStream, o: &RecObs, owned: bool) -> Option<usize> {
    in_order_member(r, None, o, owned)
}

struct Runner<'a> {
    case: &'a HCase,
    rig: Rig,
    sets: Vec<AnySet>,
    slots: Vec<Slot>,
    cursor: Cursor,
    degraded: bool,
    last_delivered: Option<usize>,
    /// what `position()` must be if reported
    expect_pos: Option<(u64, u64)>,
    /// position must be reported (after a record was returned by next())
    pos_required: bool,
    devs: Vec<Deviation>,
    stats: HStats,
    trace: Vec<String>,
    op_idx: usize,
    has_exact: bool,
    opts: RunOpts<'a>,
    fatal: bool,
    /// the current operation leaves the model strict if it answers BufferLimit (single-record
    /// reads and plain set reads ask the policy for their first record only: nothing was consumed)
    limit_keeps_strict: bool,
    /// a BufferLimit was returned and no record has been delivered since: deviations now
    /// belong to the policy property ("a policy installed in mid-stream takes over without
    /// disturbing the stream", "records that fit within the permitted sizes are parsed normally")
    after_limit: bool,
}

impl<'a> Runner<'a> {
    fn dev(&mut self, tag: &'static str, sig: &str, what: String) {
        let tag = if self.after_limit && tag == "order" { "policy" } else { tag };
        if self.devs.len() < 20 {
            self.devs.push(Deviation {
                tag,
                sig: sig.to_string(),
                what: format!("op {} ({:?}): {}", self.op_idx, self.case.ops.get(self.op_idx), what),
                at_op: self.op_idx,
            });
        }
    }

    fn r(&self) -> &RefStream {
        &self.case.reference
    }

    fn n(&self) -> usize {
        self.case.reference.recs.len()
    }

    fn coords(&self, i: usize) -> Option<(u64, u64)> {
        let r = self.r();
        if i < r.recs.len() {
            Some((r.recs[i].line, r.recs[i].byte))
        } else if r.has_err() && self.case.fmt == Fmt::Fastq {
            // only FASTQ has positions of invalid records (a FASTA invalid start is not a record position)
            r.err_coords
        } else {
            None
        }
    }

    fn caught(&mut self, c: Caught) {
        match c {
            Caught::Panic(m) => {
                let sig = panic_sig(&m);
                self.dev("total", &sig, format!("panic: {}", m));
            }
            Caught::Budget(m) => self.dev("total", "no-termination", format!("does not terminate: {}", m)),
        }
        self.fatal = true;
    }

    /// handles an error answer of a reading operation. Returns true if the
    /// error is accounted for (and the model state was updated).
    fn on_error(&mut self, e: &crate::api::ErrFull, injected: usize, refused: usize) {
        self.on_error_nth(e, injected, refused, 0)
    }

    /// `nth`: how many I/O errors the current (multi-call) operation has already returned
    fn on_error_nth(&mut self, e: &crate::api::ErrFull, injected: usize, refused: usize, nth: usize) {
        match &e.obs {
            ErrObs::Io { kind, msg } => {
                if injected <= nth {
                    self.dev(
                        "io",
                        "io-error-without-source-error",
                        format!("I/O error {:?} {:?} returned although the source reported none", kind, msg),
                    );
                } else {
                    let log = self.rig.src.borrow();
                    let last = &log.injected[log.injected.len() - injected..];
                    // the first error raised during this call must be the one returned
                    let (_, _, k0, m0) = &last[nth];
                    if k0 != kind || m0 != msg {
                        let (k0, m0) = (*k0, m0.clone());
                        drop(log);
                        self.dev(
                            "io",
                            "io-error-altered",
                            format!("source raised {:?} {:?} but the call returned {:?} {:?}", k0, m0, kind, msg),
                        );
                    }
                }
                self.enter_degraded();
            }
            ErrObs::BufferLimit => {
                if refused == 0 {
                    self.dev(
                        "policy",
                        "buffer-limit-without-refusal",
                        "BufferLimit returned although the policy did not refuse".into(),
                    );
                }
                // "records that fit within the permitted sizes are parsed normally": a single-record read
                // cannot need more room than the largest item of the input, whatever happened before
                if self.limit_keeps_strict && !self.r().has_err() {
                    let r = self.r();
                    let mut need = r.recs.iter().map(|x| x.extent() + 1).max().unwrap_or(1);
                    if self.case.fmt == Fmt::Fastq {
                        let tail_start = r.recs.last().map_or(0, |x| x.end);
                        need = need.max(self.case.input.len() - tail_start + 1);
                    }
                    let cap = self.rig.rr().capacity();
                    if need <= cap {
                        self.dev(
                            "policy",
                            "buffer-limit-although-every-record-fits",
                            format!("a single-record read returned BufferLimit; the buffer has {} bytes and no record of the input needs more than {}", cap, need),
                        );
                    }
                }
                if self.limit_keeps_strict && !self.degraded && matches!(self.cursor, Cursor::At(_)) {
                    // the record is still pending: with a policy that permits the size the
                    // stream must continue exactly here
                    self.after_limit = true;
                    self.stats.limits_kept_strict += 1;
                    self.expect_pos = None;
                    self.pos_required = false;
                } else {
                    self.enter_degraded();
                }
            }
            _ => {
                // a parse error
                if self.degraded {
                    return; // any error is acceptable after an error
                }
                let r = self.r();
                let fields = self.opts.err_fields;
                let ok = r.has_err() && r.err.iter().any(|x| err_matches(&e.obs, x, fields));
                if !ok {
                    let what = format!(
                        "parse error {:?} but the reference expects {:?} after {} records",
                        e.obs,
                        r.err,
                        r.recs.len()
                    );
                    self.dev("order", "unexpected-parse-error", what);
                }
                self.cursor = Cursor::Terminal;
                self.expect_pos = None;
            }
        }
    }

    fn enter_degraded(&mut self) {
        self.after_limit = false;
        if !self.degraded {
            self.degraded = true;
            self.stats.degraded = true;
            // the last record delivered in strict mode bounds what may follow
            if let Cursor::At(i) = self.cursor {
                self.last_delivered = if i == 0 { None } else { Some(i - 1) };
            } else {
                self.last_delivered = Some(self.n().saturating_sub(1));
                if self.n() == 0 {
                    self.last_delivered = None;
                }
            }
        }
        self.expect_pos = None;
        self.pos_required = false;
    }

    /// checks side conditions common to all ops: swallowed source errors, refusals without BufferLimit
    fn post_op(&mut self, injected: usize, refused: usize, returned_io: bool, returned_limit: bool) {
        if injected > 0 && !returned_io {
            self.dev(
                "io",
                "io-error-swallowed",
                format!(
                    "the source raised {} error(s) during this call but the call did not return an I/O error",
                    injected
                ),
            );
            self.enter_degraded();
        }
        if refused > 0 && !returned_limit && !returned_io {
            self.dev(
                "policy",
                "refusal-without-buffer-limit",
                "the policy refused to grow during this call but the call did not return BufferLimit".into(),
            );
            self.enter_degraded();
        }
    }

    fn check_position(&mut self) {
        if self.degraded {
            return;
        }
        let p = self.rig.rr().position();
        if let Some(exp) = self.expect_pos {
            match p {
                Some(p) => {
                    self.stats.positions_checked += 1;
                    if p != exp {
                        self.dev(
                            "position",
                            "wrong-position",
                            format!("position() is {:?}, true coordinates are {:?}", p, exp),
                        );
                    }
                }
                None => {
                    if self.pos_required {
                        self.dev(
                            "position",
                            "no-position",
                            format!("position() reports nothing after a record was returned (expected {:?})", exp),
                        );
                    }
                }
            }
        }
    }

    fn check_inv(&mut self) {
        if self.degraded || self.fatal {
            return;
        }
        self.stats.inv_checks += 1;
        if let Err((k, m)) = self.rig.check_invariants() {
            let tag: &'static str = match k.as_str() {
                "INV-P" | "INV-L" => "position",
                "INV-C" => "policy",
                _ => "total",
            };
            self.dev(tag, &k, m);
        }
    }

    /// policy log entries added during the op: chain, generation, necessity
    fn check_policy_calls(&mut self, before: usize, item: Option<usize>) {
        let calls: Vec<(usize, usize, Option<usize>)> = self.rig.pol.borrow().calls[before..].to_vec();
        if calls.is_empty() {
            return;
        }
        let prev_cap = {
            let log = self.rig.pol.borrow();
            log.calls[..before]
                .iter()
                .rev()
                .find_map(|c| c.2)
                .unwrap_or(self.rig.initial_cap)
        };
        let mut cap = prev_cap;
        for (gen, arg, ans) in &calls {
            self.stats.grow_calls += 1;
            if *gen != self.rig.policy_generation {
                self.dev(
                    "policy",
                    "stale-policy-asked",
                    format!("growth request went to policy generation {} but {} is installed", gen, self.rig.policy_generation),
                );
            }
            // after an injected source error the buffer may be partly filled and a growth
            // request may legitimately leave the capacity unchanged: the chain is judged fault-free only
            if *arg != cap && self.rig.src.borrow().injected.is_empty() {
                self.dev(
                    "policy",
                    "policy-argument",
                    format!("grow_to({}) but the current capacity is {}", arg, cap),
                );
            }
            // necessity
            if self.opts.necessity && !self.has_exact && !self.degraded {
                if let Some(i) = item {
                    let r = self.r();
                    let need = if i < r.recs.len() {
                        let rec = &r.recs[i];
                        match self.case.fmt {
                            Fmt::Fasta => Some(rec.extent() + 1),
                            Fmt::Fastq => {
                                // extent includes the final LF if there is one
                                let terminated = self.case.input.get(rec.end - 1) == Some(&b'\n')
                                    && rec.unchanged.len() == rec.extent();
                                Some(if terminated { rec.extent() } else { rec.extent() + 1 })
                            }
                        }
                    } else if !r.has_err() {
                        // behind the last record: FASTA has nothing left to parse (blank
                        // lines never need room), FASTQ has the blank tail
                        match self.case.fmt {
                            Fmt::Fasta => Some(1),
                            Fmt::Fastq => {
                                let tail_start = r.recs.last().map_or(0, |x| x.end);
                                Some(self.case.input.len() - tail_start + 1)
                            }
                        }
                    } else {
                        None
                    };
                    if let Some(need) = need {
                        let excess = need as i64 - cap as i64;
                        self.stats.min_growth_excess =
                            Some(self.stats.min_growth_excess.map_or(excess, |m| m.min(excess)));
                        if need <= cap {
                            self.dev(
                                "policy",
                                "needless-growth",
                                format!(
                                    "grow_to({}) although the item being parsed (#{}) needs only {} bytes",
                                    cap, i, need
                                ),
                            );
                        }
                    }
                }
            }
            if let Some(a) = ans {
                cap = *a;
            } else {
                self.stats.refusals_seen += 1;
            }
        }
    }

    fn verify_other_slots(&mut self, except: usize) {
        for s in 0..N_SLOTS {
            if s == except {
                continue;
            }
            if let Slot::Known(list) = self.slots[s].clone() {
                self.stats.slots_reverified += 1;
                let got = match guarded(|| self.sets[s].records()) {
                    Ok(g) => g,
                    Err(c) => {
                        self.caught(c);
                        return;
                    }
                };
                let ok = got.len() == list.len()
                    && self.sets[s].len() == list.len()
                    && self.sets[s].is_empty() == list.is_empty()
                    && got.iter().zip(&list).all(|(o, k)| o.matches(&self.case.reference.recs[*k]));
                if !ok {
                    self.dev(
                        "order",
                        "earlier-set-changed",
                        format!("slot {} no longer holds records {:?} after another set was filled", s, list),
                    );
                }
            }
        }
    }

    fn do_read_one(&mut self, owned: bool) {
        self.limit_keeps_strict = true;
        let inj0 = self.rig.src.borrow().injected.len();
        let pol0 = self.rig.pol.borrow().calls.len();
        self.rig.begin_op();
        let item = match self.cursor {
            Cursor::At(i) => Some(i),
            Cursor::Terminal => None,
        };
        let res = guarded(|| {
            if owned {
                self.rig.r().owned_step()
            } else {
                self.rig.r().next()
            }
        });
        let o = match res {
            Ok(o) => o,
            Err(c) => return self.caught(c),
        };
        let injected = self.rig.src.borrow().injected.len() - inj0;
        let refused = self.rig.pol.borrow().calls[pol0..].iter().filter(|c| c.2.is_none()).count();
        self.trace.push(o.short());
        self.check_policy_calls(pol0, item);
        match &o {
            Obs::Rec(rec) => {
                self.stats.records_delivered += 1;
                if self.degraded {
                    match in_order_member(self.r(), self.last_delivered, rec, owned) {
                        Some(k) => {
                            self.last_delivered = Some(k);
                            // "the position reported after a record has been returned is that record's true
                            // location": also for a record that is returned after an error
                            if let (Some(exp), Some(p)) = (self.coords(k), self.rig.rr().position()) {
                                self.stats.positions_checked_after_error += 1;
                                if p != exp {
                                    self.dev(
                                        "position",
                                        "wrong-position-after-error",
                                        format!("after an earlier error record {} was returned; position() is {:?}, its true coordinates are {:?}", k, p, exp),
                                    );
                                }
                            }
                        }
                        None => {
                            let (tag, sig): (&'static str, &str) = if any_member(self.r(), rec, owned).is_some() {
                                ("total", "record-repeated-or-out-of-order-after-error")
                            } else {
                                ("total", "fabricated-record")
                            };
                            self.dev(tag, sig, format!("after an error: {}", rec.short()));
                        }
                    }
                } else {
                    match self.cursor.clone() {
                        Cursor::At(i) if i < self.n() => {
                            let ok = if owned {
                                rec.matches_owned(&self.r().recs[i])
                            } else {
                                rec.matches(&self.r().recs[i])
                            };
                            if !ok {
                                let member = any_member(self.r(), rec, owned);
                                let sig = if member.is_some() { "wrong-record-order" } else { "fabricated-record" };
                                let tag = if member.is_some() { "order" } else { "total" };
                                self.dev(
                                    tag,
                                    sig,
                                    format!(
                                        "expected record {} (head {:?}), observed {} (is record {:?} of the input)",
                                        i,
                                        show(&self.r().recs[i].head),
                                        rec.short(),
                                        member
                                    ),
                                );
                                // resynchronise so that one slip is reported once
                                if let Some(k) = member {
                                    self.cursor = Cursor::At(k + 1);
                                    self.expect_pos = self.coords(k);
                                } else {
                                    self.cursor = Cursor::At(i + 1);
                                    self.expect_pos = None;
                                }
                            } else {
                                self.cursor = Cursor::At(i + 1);
                                self.expect_pos = self.coords(i);
                                if self.after_limit {
                                    self.stats.resumed_after_limit += 1;
                                }
                            }
                            self.after_limit = false;
                            self.pos_required = true;
                            self.check_position();
                        }
                        _ => {
                            let member = any_member(self.r(), rec, owned);
                            self.dev(
                                if member.is_some() { "order" } else { "total" },
                                if member.is_some() { "record-after-end" } else { "fabricated-record" },
                                format!("a record was returned after the end of the stream: {}", rec.short()),
                            );
                        }
                    }
                }
                self.post_op(injected, refused, false, false);
            }
            Obs::Err(e) => {
                let io = matches!(e.obs, ErrObs::Io { .. });
                let lim = matches!(e.obs, ErrObs::BufferLimit);
                if !self.degraded && !io && !lim {
                    // a parse error must come exactly when the cursor is at the end of the valid records
                    if let Cursor::At(i) = self.cursor {
                        if i < self.n() {
                            self.dev(
                                "order",
                                "lost-records-before-error",
                                format!("error {:?} returned by a single-record read although record {} is next", e.obs, i),
                            );
                        }
                    } else {
                        self.dev("order", "error-after-end", format!("error {:?} after the end was reported", e.obs));
                    }
                }
                self.on_error(e, injected, refused);
                self.post_op(injected, refused, io, lim);
            }
            Obs::End => {
                if !self.degraded {
                    match self.cursor {
                        Cursor::At(i) if i < self.n() => {
                            self.dev("order", "lost-records", format!("end of input reported but record {} is next", i));
                        }
                        Cursor::At(_) if self.r().has_err() && !self.r().err_or_end => {
                            self.dev(
                                "order",
                                "lost-error",
                                format!("end of input reported but the error {:?} is due", self.r().err),
                            );
                        }
                        _ => {}
                    }
                    self.cursor = Cursor::Terminal;
                    self.expect_pos = None;
                }
                self.post_op(injected, refused, false, false);
            }
        }
    }

    fn do_read_set(&mut self, slot: usize, n: Option<usize>) {
        self.limit_keeps_strict = n.is_none();
        let inj0 = self.rig.src.borrow().injected.len();
        let pol0 = self.rig.pol.borrow().calls.len();
        self.rig.begin_op();
        let item = match self.cursor {
            Cursor::At(i) => Some(i),
            Cursor::Terminal => None,
        };
        let mut set = std::mem::replace(&mut self.sets[slot], AnySet::new(self.case.fmt));
        let res = guarded(|| self.rig.r().read_set(&mut set, n));
        self.sets[slot] = set;
        let o = match res {
            Ok(o) => o,
            Err(c) => return self.caught(c),
        };
        let injected = self.rig.src.borrow().injected.len() - inj0;
        let refused = self.rig.pol.borrow().calls[pol0..].iter().filter(|c| c.2.is_none()).count();
        let grew = self.rig.pol.borrow().calls.len() > pol0;
        // necessity is judged for plain set reads only (item = first record of the batch)
        self.check_policy_calls(pol0, if n.is_none() { item } else { None });
        // what the slot may hold if this read reports the end of input
        let after_end = match &self.slots[slot] {
            Slot::Known(l) | Slot::PrevOrEmpty(l) => Slot::PrevOrEmpty(l.clone()),
            Slot::Fresh => Slot::PrevOrEmpty(vec![]),
            Slot::Unknown => Slot::Unknown,
        };
        match o {
            SetObs::Ok => {
                let recs = match guarded(|| self.sets[slot].records()) {
                    Ok(r) => r,
                    Err(c) => return self.caught(c),
                };
                self.trace.push(format!("set Ok({} records)", recs.len()));
                self.stats.records_delivered += recs.len();
                self.stats.largest_set = self.stats.largest_set.max(recs.len());
                if recs.is_empty() {
                    self.dev("order", "empty-set", "a successful record-set read yielded no record".into());
                }
                if self.degraded {
                    let mut idxs = vec![];
                    for rec in &recs {
                        match in_order_member(self.r(), self.last_delivered, rec, false) {
                            Some(k) => {
                                self.last_delivered = Some(k);
                                idxs.push(k);
                            }
                            None => {
                                let sig = if any_member(self.r(), rec, false).is_some() {
                                    "record-repeated-or-out-of-order-after-error"
                                } else {
                                    "fabricated-record"
                                };
                                self.dev("total", sig, format!("in a set after an error: {}", rec.short()));
                            }
                        }
                    }
                    self.slots[slot] = Slot::Known(idxs);
                } else {
                    match self.cursor.clone() {
                        Cursor::At(i) => {
                            let m = recs.len();
                            let avail = self.n() - i.min(self.n());
                            if m > avail {
                                self.dev(
                                    "order",
                                    "too-many-records",
                                    format!("set holds {} records but only {} remain", m, avail),
                                );
                            }
                            let mm = m.min(avail);
                            let mut bad = None;
                            for (j, rec) in recs.iter().take(mm).enumerate() {
                                if !rec.matches(&self.r().recs[i + j]) {
                                    bad = Some(j);
                                    break;
                                }
                            }
                            if let Some(j) = bad {
                                let member = any_member(self.r(), &recs[j], false);
                                self.dev(
                                    if member.is_some() { "order" } else { "total" },
                                    if member.is_some() { "wrong-record-order" } else { "fabricated-record" },
                                    format!(
                                        "set record {} should be record {} of the input, observed {} (is record {:?})",
                                        j,
                                        i + j,
                                        recs[j].short(),
                                        member
                                    ),
                                );
                            }
                            if let Some(n) = n {
                                let want = n.min(avail);
                                if m != want && avail > 0 {
                                    self.dev(
                                        "order",
                                        "exact-count",
                                        format!("exact read of {} with {} records left yielded {}", n, avail, m),
                                    );
                                }
                                if avail < n {
                                    self.stats.exact_short += 1;
                                }
                                if n >= (1usize << 32) - 1 {
                                    self.stats.exact_huge_n += 1;
                                }
                                if grew && m > 1 {
                                    self.stats.exact_grew_with_batch += 1;
                                }
                            }
                            if self.after_limit && bad.is_none() && mm > 0 {
                                self.stats.resumed_after_limit += 1;
                            }
                            self.after_limit = false;
                            self.cursor = Cursor::At(i + mm);
                            self.slots[slot] = Slot::Known((i..i + mm).collect());
                            self.expect_pos = self.coords(i + mm);
                            self.pos_required = false;
                            self.check_position();
                        }
                        Cursor::Terminal => {
                            self.dev(
                                "order",
                                "record-after-end",
                                format!("a set with {} records was returned after the end of the stream", recs.len()),
                            );
                            self.slots[slot] = Slot::Unknown;
                        }
                    }
                }
                self.post_op(injected, refused, false, false);
                if !self.fatal {
                    self.verify_other_slots(slot);
                }
            }
            SetObs::Err(e) => {
                self.trace.push(format!("set Err({:?})", e.obs));
                self.slots[slot] = Slot::Unknown;
                let io = matches!(e.obs, ErrObs::Io { .. });
                let lim = matches!(e.obs, ErrObs::BufferLimit);
                if !self.degraded && !io && !lim {
                    if let (Cursor::At(i), Some(n)) = (self.cursor.clone(), n) {
                        // an exact read can only meet the invalid group if it needs more records than remain
                        if i.saturating_add(n) <= self.n() {
                            self.dev(
                                "order",
                                "lost-records-before-error",
                                format!("exact read of {} reported {:?} although {} valid records remain", n, e.obs, self.n() - i),
                            );
                        }
                    }
                    if self.cursor == Cursor::Terminal {
                        self.dev("order", "error-after-end", format!("error {:?} after the end was reported", e.obs));
                    }
                }
                self.on_error(&e, injected, refused);
                self.post_op(injected, refused, io, lim);
            }
            SetObs::End => {
                self.trace.push("set End".into());
                if !self.degraded {
                    match self.cursor {
                        Cursor::At(i) if i < self.n() => {
                            self.dev(
                                "order",
                                "lost-records",
                                format!("set read reported end of input but record {} is next ({} lost)", i, self.n() - i),
                            );
                        }
                        Cursor::At(_) if self.r().has_err() && !self.r().err_or_end => {
                            self.dev(
                                "order",
                                "lost-error",
                                format!("set read reported end of input but the error {:?} is due", self.r().err),
                            );
                        }
                        _ => {}
                    }
                    self.cursor = Cursor::Terminal;
                    self.expect_pos = None;
                    self.slots[slot] = after_end;
                } else {
                    self.slots[slot] = Slot::Unknown;
                }
                self.post_op(injected, refused, false, false);
            }
        }
    }

    fn do_seek(&mut self, t: usize) {
        self.limit_keeps_strict = false;
        let (line, byte) = match self.coords(t) {
            Some(c) => c,
            None => {
                self.trace.push("seek skipped (no such target)".into());
                return;
            }
        };
        let inj0 = self.rig.src.borrow().injected.len();
        let seeks0 = self.rig.src.borrow().seek_calls;
        {
            let delivered = self.rig.src.borrow().pos as u64;
            let cap = self.rig.r().capacity() as u64;
            if byte < delivered && byte + cap >= delivered {
                self.stats.seek_targets_in_window += 1;
            } else {
                self.stats.seek_targets_outside_window += 1;
            }
        }
        self.rig.begin_op();
        let res = guarded(|| self.rig.r().seek(line, byte));
        let res = match res {
            Ok(r) => r,
            Err(c) => return self.caught(c),
        };
        let injected = self.rig.src.borrow().injected.len() - inj0;
        let real = self.rig.src.borrow().seek_calls > seeks0;
        if real {
            self.stats.seeks_real += 1;
        } else {
            self.stats.seeks_in_buffer += 1;
        }
        match res {
            Ok(()) => {
                self.trace.push(format!("seek({},{}) Ok {}", line, byte, if real { "real" } else { "in-buffer" }));
                if self.degraded {
                    self.last_delivered = if t == 0 { None } else { Some(t - 1) };
                } else {
                    self.cursor = Cursor::At(t);
                    self.expect_pos = None;
                    self.pos_required = false;
                }
                self.post_op(injected, 0, false, false);
            }
            Err(e) => {
                self.trace.push(format!("seek({},{}) Err({:?})", line, byte, e.obs));
                let io = matches!(e.obs, ErrObs::Io { .. });
                if !io {
                    self.dev("seek", "seek-error", format!("seek to a record position failed with {:?}", e.obs));
                }
                if let ErrObs::Io { msg, .. } = &e.obs {
                    if msg.contains(crate::src::ABSOLUTE_ONLY_MSG) {
                        self.dev(
                            "seek",
                            "seek-needs-relative-source-seeks",
                            "seek to a record position failed because the reader asked a source that only supports absolute seeks for a relative one".into(),
                        );
                    }
                }
                self.on_error(&e, injected, 0);
                self.post_op(injected, 0, io, false);
            }
        }
    }

    fn do_iter_slot(&mut self, s: usize) {
        let model = self.slots[s].clone();
        if matches!(model, Slot::Unknown) && !self.opts.iter_unknown_slots {
            self.trace.push("iterslot skipped".into());
            return;
        }
        let got = match guarded(|| self.sets[s].records()) {
            Ok(g) => g,
            Err(c) => return self.caught(c),
        };
        self.trace.push(format!("iterslot {} -> {} records", s, got.len()));
        let refr = &self.case.reference;
        let eq = |list: &Vec<usize>| {
            got.len() == list.len() && got.iter().zip(list).all(|(o, k)| o.matches(&refr.recs[*k]))
        };
        match model {
            Slot::Fresh => {
                if !got.is_empty() {
                    self.dev("order", "fresh-set-not-empty", format!("a never-filled set yields {} records", got.len()));
                }
            }
            Slot::Known(list) => {
                if !eq(&list) {
                    self.dev("order", "set-content", format!("slot {} should hold records {:?}", s, list));
                }
            }
            Slot::PrevOrEmpty(list) => {
                if !(got.is_empty() || eq(&list)) {
                    self.dev(
                        "order",
                        "set-content-after-end",
                        format!("slot {} should hold records {:?} or nothing after a read that reported the end", s, list),
                    );
                }
            }
            Slot::Unknown => {
                for o in &got {
                    if any_member(refr, o, false).is_none() {
                        self.dev(
                            "total",
                            "fabricated-record",
                            format!("a set whose fill failed yields a record that is not in the input: {}", o.short()),
                        );
                        break;
                    }
                }
            }
        }
    }

    fn do_into_records(&mut self) {
        self.limit_keeps_strict = false;
        let reader = self.rig.reader.take().unwrap();
        let max = self.n() + 6;
        self.rig.begin_op();
        let inj0 = self.rig.src.borrow().injected.len();
        let pol0 = self.rig.pol.borrow().calls.len();
        let res = guarded(move || reader.into_records_all(max));
        let obs = match res {
            Ok(o) => o,
            Err(c) => return self.caught(c),
        };
        let injected = self.rig.src.borrow().injected.len() - inj0;
        let refused = self.rig.pol.borrow().calls[pol0..].iter().filter(|c| c.2.is_none()).count();
        self.check_policy_calls(pol0, None);
        self.trace.push(format!("into_records -> {} answers", obs.len()));
        let mut saw_io = false;
        let mut n_io = 0usize;
        for o in obs {
            match o {
                Obs::Rec(rec) => {
                    self.stats.records_delivered += 1;
                    if self.degraded {
                        match in_order_member(self.r(), self.last_delivered, &rec, true) {
                            Some(k) => self.last_delivered = Some(k),
                            None => self.dev("total", "fabricated-record", format!("after an error: {}", rec.short())),
                        }
                    } else {
                        match self.cursor.clone() {
                            Cursor::At(i) if i < self.n() => {
                                if !rec.matches_owned(&self.r().recs[i]) {
                                    let member = any_member(self.r(), &rec, true);
                                    self.dev(
                                        if member.is_some() { "order" } else { "total" },
                                        if member.is_some() { "wrong-record-order" } else { "fabricated-record" },
                                        format!("into_records: expected record {}, observed {}", i, rec.short()),
                                    );
                                }
                                self.cursor = Cursor::At(i + 1);
                            }
                            _ => self.dev("order", "record-after-end", format!("into_records: {}", rec.short())),
                        }
                    }
                }
                Obs::Err(e) => {
                    let is_io = matches!(e.obs, ErrObs::Io { .. });
                    if is_io {
                        saw_io = true;
                    }
                    if !self.degraded && e.obs.is_parse() {
                        if let Cursor::At(i) = self.cursor {
                            if i < self.n() {
                                self.dev("order", "lost-records-before-error", format!("into_records: error {:?} but record {} is next", e.obs, i));
                            }
                        }
                    }
                    self.on_error_nth(&e, injected, refused, n_io);
                    if is_io {
                        n_io += 1;
                    }
                }
                Obs::End => {
                    if !self.degraded {
                        match self.cursor {
                            Cursor::At(i) if i < self.n() => {
                                self.dev("order", "lost-records", format!("into_records ended but record {} is next", i));
                            }
                            Cursor::At(_) if self.r().has_err() && !self.r().err_or_end => {
                                self.dev("order", "lost-error", "into_records ended but an error is due".into());
                            }
                            _ => {}
                        }
                        self.cursor = Cursor::Terminal;
                    }
                }
            }
        }
        if injected > 0 && !saw_io {
            self.dev("io", "io-error-swallowed", "into_records swallowed a source error".into());
        }
        self.fatal = true; // the reader is gone
    }
}

pub fn run_history(case: &HCase, opts: RunOpts) -> HOutcome {
    run_history_reusing(case, opts, None).0
}

/// `reuse`: record sets that another reader (over another input) has filled before; the model knows
/// nothing about their contents until this reader fills them. Returns the sets for the next reuse.
pub fn run_history_reusing(case: &HCase, opts: RunOpts, reuse: Option<Vec<AnySet>>) -> (HOutcome, Vec<AnySet>) {
    let rig = make_rig(case.fmt, case.input.clone(), &case.cfg, case.faults.clone());
    let has_exact = case.ops.iter().any(|o| matches!(o, Op::ReadSetExact(..)));
    let reused = reuse.is_some();
    let mut run = Runner {
        case,
        rig,
        sets: reuse.unwrap_or_else(|| (0..N_SLOTS).map(|_| AnySet::new(case.fmt)).collect()),
        slots: vec![if reused { Slot::Unknown } else { Slot::Fresh }; N_SLOTS],
        cursor: Cursor::At(0),
        degraded: false,
        last_delivered: None,
        expect_pos: None,
        pos_required: false,
        devs: vec![],
        stats: HStats::default(),
        trace: vec![],
        op_idx: 0,
        has_exact,
        opts,
        fatal: false,
        limit_keeps_strict: false,
        after_limit: false,
    };
    for (k, op) in case.ops.iter().enumerate() {
        if run.fatal {
            break;
        }
        run.op_idx = k;
        // coverage: reader state before the operation
        let state = run.rig.rr().snapshot().state;
        if let Some(rep) = run.opts.rep.as_deref_mut() {
            rep.map("state_x_op", &format!("{}:{}", state, op.kind()));
            rep.map("ops", op.kind());
            if k > 0 {
                rep.map("switches", &format!("{}->{}", case.ops[k - 1].kind(), op.kind()));
            }
        }
        run.stats.ops_run += 1;
        match op {
            Op::Next => run.do_read_one(false),
            Op::OwnedStep => run.do_read_one(true),
            Op::ReadSet(s) => run.do_read_set(*s, None),
            Op::ReadSetExact(n, s) => run.do_read_set(*s, Some(*n)),
            Op::Seek(t) => {
                let seeks_before = (run.stats.seeks_in_buffer, run.stats.seeks_real);
                run.do_seek(*t);
                if let Some(rep) = run.opts.rep.as_deref_mut() {
                    if run.stats.seeks_in_buffer > seeks_before.0 {
                        rep.map("seek_prestate", &format!("{}:in-buffer", state));
                    } else if run.stats.seeks_real > seeks_before.1 {
                        rep.map("seek_prestate", &format!("{}:real", state));
                    }
                }
            }
            Op::Position => {
                let p = run.rig.rr().position();
                run.trace.push(format!("position {:?}", p));
                run.check_position();
            }
            Op::SetPolicy(spec) => {
                // (constant-step policies make large records quadratic: only doubling ones for large inputs)
                let spec = crate::gen::tame_policy(spec, case.input.len());
                run.rig.set_policy(&spec);
                run.trace.push(format!("set_policy {:?}", spec));
            }
            Op::IterSlot(s) => run.do_iter_slot(*s),
            Op::ShrinkSlot(s) => {
                let before = run.sets[*s].len();
                if let Err(c) = guarded(|| run.sets[*s].shrink()) {
                    run.caught(c);
                } else {
                    if run.sets[*s].len() != before || run.sets[*s].buf_capacity() < run.sets[*s].buffer().len() {
                        run.dev("order", "shrink-changed-set", "shrink_buffer_to_fit() changed the length of the set".into());
                    }
                    run.do_iter_slot(*s);
                }
            }
            Op::CloneSlot(a, b) => {
                if a != b {
                    if (a + b + k) % 2 == 0 {
                        // `clone_from` into the used destination instead of assigning a fresh clone
                        let src = std::mem::replace(&mut run.sets[*a], AnySet::new(case.fmt));
                        let r = guarded(|| run.sets[*b].clone_from_set(&src));
                        run.sets[*a] = src;
                        run.stats.clone_from_calls += 1;
                        match r {
                            Ok(()) => {
                                run.slots[*b] = run.slots[*a].clone();
                                run.do_iter_slot(*b);
                            }
                            Err(c) => run.caught(c),
                        }
                    } else {
                        match guarded(|| run.sets[*a].clone()) {
                            Ok(c) => {
                                run.sets[*b] = c;
                                run.slots[*b] = run.slots[*a].clone();
                                run.do_iter_slot(*b);
                            }
                            Err(c) => run.caught(c),
                        }
                    }
                }
            }
            Op::IntoRecords => run.do_into_records(),
        }
        if run.stats.first_injected_op.is_none() && !run.rig.src.borrow().injected.is_empty() {
            run.stats.first_injected_op = Some(k);
        }
        if !run.fatal {
            run.check_inv();
        }
    }
    {
        let s = run.rig.src.borrow();
        run.stats.read_calls = s.read_calls;
        run.stats.seek_calls = s.seek_calls;
        run.stats.interrupts_seen = s.interrupts;
        run.stats.injected_seen = s.injected.len();
    }
    (
        HOutcome {
            deviations: run.devs,
            stats: run.stats,
            trace: run.trace,
        },
        run.sets,
    )
}

/// number of source calls of the fault-free run (for fault enumeration)
pub fn count_source_calls(case: &HCase) -> (usize, usize) {
    let o = run_history(
        case,
        RunOpts {
            iter_unknown_slots: false,
            necessity: false,
            err_fields: false,
            rep: None,
        },
    );
    (o.stats.read_calls, o.stats.seek_calls)
}

/// convenience used by several monitors: build a config with a refusing policy etc.
pub fn with_policy(cfg: &Config, p: PolSpec) -> Config {
    Config {
        policy: p,
        ..cfg.clone()
    }
}
