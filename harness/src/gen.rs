//! Seeded input generators. Everything is a pure function of the `Rng` passed in.

use crate::refmodel::Fmt;
use crate::rng::Rng;
use crate::src::{Chunking, Interrupts, PolSpec};

#[derive(Clone, Debug, PartialEq, Eq)]
pub struct AbsRec {
    pub head: Vec<u8>,
    /// FASTA: 0..k lines (possibly empty ones); FASTQ: exactly one
    pub lines: Vec<Vec<u8>>,
    pub qual: Option<Vec<u8>>,
}

#[derive(Clone, Debug, PartialEq, Eq)]
pub struct AbsFile {
    pub fmt: Fmt,
    pub recs: Vec<AbsRec>,
}

#[derive(Clone, Debug, PartialEq, Eq)]
pub enum LineEnd {
    Lf,
    Crlf,
    /// per line: CRLF with probability 1/2 (FASTA only in well-formed files)
    Mixed(u64),
}

#[derive(Clone, Debug, PartialEq, Eq)]
pub struct RenderOpts {
    pub ends: LineEnd,
    pub final_term: bool,
    /// number of blank lines before the first record (FASTA)
    pub leading_blanks: usize,
    /// number of blank lines after the last record
    pub trailing_blanks: usize,
}

impl RenderOpts {
    pub fn plain() -> RenderOpts {
        RenderOpts {
            ends: LineEnd::Lf,
            final_term: true,
            leading_blanks: 0,
            trailing_blanks: 0,
        }
    }
}

pub fn render(f: &AbsFile, o: &RenderOpts) -> Vec<u8> {
    let mut rng = match o.ends {
        LineEnd::Mixed(s) => Rng::new(s),
        _ => Rng::new(0),
    };
    let mut term = |out: &mut Vec<u8>| match o.ends {
        LineEnd::Lf => out.push(b'\n'),
        LineEnd::Crlf => out.extend_from_slice(b"\r\n"),
        LineEnd::Mixed(_) => {
            if rng.chance(1, 2) {
                out.extend_from_slice(b"\r\n")
            } else {
                out.push(b'\n')
            }
        }
    };
    let mut out = vec![];
    for _ in 0..o.leading_blanks {
        term(&mut out);
    }
    let n = f.recs.len();
    for (i, r) in f.recs.iter().enumerate() {
        let last_rec = i + 1 == n;
        match f.fmt {
            Fmt::Fasta => {
                out.push(b'>');
                out.extend_from_slice(&r.head);
                let nl = r.lines.len();
                if !(last_rec && nl == 0 && !o.final_term && o.trailing_blanks == 0) {
                    term(&mut out);
                }
                for (j, l) in r.lines.iter().enumerate() {
                    out.extend_from_slice(l);
                    let last_line = last_rec && j + 1 == nl;
                    // an empty last line cannot stay unterminated (it would vanish)
                    if !(last_line && !o.final_term && o.trailing_blanks == 0 && !l.is_empty()) {
                        term(&mut out);
                    }
                }
            }
            Fmt::Fastq => {
                out.push(b'@');
                out.extend_from_slice(&r.head);
                term(&mut out);
                out.extend_from_slice(&r.lines[0]);
                term(&mut out);
                out.push(b'+');
                term(&mut out);
                out.extend_from_slice(r.qual.as_ref().unwrap());
                if !(last_rec && !o.final_term && o.trailing_blanks == 0) {
                    term(&mut out);
                }
            }
        }
    }
    if n > 0 {
        for _ in 0..o.trailing_blanks {
            term(&mut out);
        }
    }
    out
}

const SEQ_ALPHA: &[u8] = b"ACGTNacgtn";

fn gen_head(rng: &mut Rng, idx: usize, tag: u64, binary: bool) -> Vec<u8> {
    // unique id first: r<tag>_<idx>
    let mut h = format!("r{}_{}", tag, idx).into_bytes();
    if !cfg!(miri) && rng.chance(1, 25) {
        // a long id (no space) with multi-byte and - where allowed - invalid UTF-8 at varying offsets
        h.push(b'_');
        let n = 40 + rng.below(120);
        while h.len() < n {
            match rng.below(6) {
                0 => h.extend_from_slice("\u{e9}".as_bytes()),
                1 => h.extend_from_slice("\u{4e2d}".as_bytes()),
                2 if binary => h.push(0xff),
                3 => h.extend_from_slice("\u{1F600}".as_bytes()),
                _ => h.push(*rng.pick(b"abcXYZ019_")),
            }
        }
        if rng.chance(1, 2) {
            h.extend_from_slice(b" desc");
        }
        return h;
    }
    match rng.below(10) {
        0 => {}
        1 => h.extend_from_slice(b" "),
        2 => h.extend_from_slice(b"  two  spaces "),
        3 => h.extend_from_slice(b" >@+ desc"),
        4 => h.extend_from_slice(" d\u{e9}sc \u{4e2d}".as_bytes()),
        5 => {
            if binary {
                h.extend_from_slice(b" \xff\xc3 bin\x00")
            } else {
                h.extend_from_slice(b" tab\there")
            }
        }
        6 => h.extend_from_slice(b" x"),
        _ => {
            let n = rng.skewed(12);
            if n > 0 {
                h.push(b' ');
                for _ in 0..n {
                    h.push(*rng.pick(b"abc XYZ>@+;:="));
                }
                // a header must not end in a space? it may; keep it
            }
        }
    }
    h
}

fn gen_seq_line(rng: &mut Rng, max: usize, fasta: bool) -> Vec<u8> {
    let n = rng.skewed(max);
    let mut l = Vec::with_capacity(n);
    for i in 0..n {
        let b = if rng.chance(1, 12) {
            *rng.pick(b">@+ *-")
        } else {
            *rng.pick(SEQ_ALPHA)
        };
        // a FASTA sequence line must not start with '>'
        l.push(if fasta && i == 0 && b == b'>' { b'A' } else { b });
    }
    l
}

#[derive(Clone, Debug)]
pub struct GenOpts {
    pub max_recs: usize,
    pub max_line: usize,
    /// probability (x/16) that one record is made much larger than the others
    pub giant: usize,
    pub giant_len: usize,
    pub binary_heads: bool,
    /// tag put into every header (makes inputs of different shards distinct)
    pub tag: u64,
}

impl Default for GenOpts {
    fn default() -> Self {
        GenOpts {
            max_recs: 12,
            max_line: 14,
            giant: 1,
            giant_len: 150,
            binary_heads: true,
            tag: 0,
        }
    }
}

pub fn gen_abs(rng: &mut Rng, fmt: Fmt, o: &GenOpts) -> AbsFile {
    // under Miri (about four orders of magnitude slower) inputs are kept tiny; small
    // capacities still force refills, compaction and growth
    let small;
    let o = if cfg!(miri) {
        small = GenOpts {
            max_recs: o.max_recs.min(4),
            max_line: o.max_line.min(6),
            giant: o.giant.min(2),
            giant_len: o.giant_len.min(24),
            ..o.clone()
        };
        &small
    } else {
        o
    };
    let n = if rng.chance(1, 20) {
        0
    } else {
        1 + rng.skewed(o.max_recs.max(1) - 1)
    };
    let giant_at = if n > 0 && rng.below(16) < o.giant {
        Some(rng.below(n))
    } else {
        None
    };
    let mut recs = vec![];
    for i in 0..n {
        let head = gen_head(rng, i, o.tag, o.binary_heads);
        let giant = giant_at == Some(i);
        match fmt {
            Fmt::Fasta => {
                let nl = if giant {
                    1 + rng.below(6)
                } else {
                    match rng.below(8) {
                        0 => 0,
                        1..=4 => 1,
                        _ => 2 + rng.below(4),
                    }
                };
                let mut lines = vec![];
                for _ in 0..nl {
                    if giant {
                        let mut l = gen_seq_line(rng, 4, true);
                        let extra = o.giant_len / 2 + rng.below(o.giant_len);
                        l.extend((0..extra).map(|k| SEQ_ALPHA[k % SEQ_ALPHA.len()]));
                        lines.push(l);
                    } else if rng.chance(1, 10) {
                        lines.push(vec![]); // blank line inside the record
                    } else {
                        lines.push(gen_seq_line(rng, o.max_line, true));
                    }
                }
                recs.push(AbsRec {
                    head,
                    lines,
                    qual: None,
                });
            }
            Fmt::Fastq => {
                let mut seq = gen_seq_line(rng, o.max_line, false);
                if giant {
                    let extra = o.giant_len / 2 + rng.below(o.giant_len);
                    seq.extend((0..extra).map(|k| SEQ_ALPHA[k % SEQ_ALPHA.len()]));
                }
                let qual: Vec<u8> = (0..seq.len())
                    .map(|_| {
                        if rng.chance(1, 6) {
                            *rng.pick(b"@+>!~")
                        } else {
                            b'!' + rng.below(60) as u8
                        }
                    })
                    .collect();
                recs.push(AbsRec {
                    head,
                    lines: vec![seq],
                    qual: Some(qual),
                });
            }
        }
    }
    AbsFile { fmt, recs }
}

pub fn gen_render_opts(rng: &mut Rng, fmt: Fmt) -> RenderOpts {
    let ends = match rng.below(6) {
        0 | 1 | 2 => LineEnd::Lf,
        3 | 4 => LineEnd::Crlf,
        _ => {
            if fmt == Fmt::Fasta {
                LineEnd::Mixed(rng.next())
            } else {
                LineEnd::Crlf
            }
        }
    };
    RenderOpts {
        ends,
        final_term: rng.chance(2, 3),
        leading_blanks: if fmt == Fmt::Fasta && rng.chance(1, 3) {
            rng.skewed(12)
        } else {
            0
        },
        trailing_blanks: match fmt {
            // FASTQ: up to two blank lines after the terminator of the last record
            // (the statement's "up to three" counts differently from the repository, see DESIGN 4.4)
            Fmt::Fastq => {
                if rng.chance(1, 4) {
                    1 + rng.below(2)
                } else {
                    0
                }
            }
            Fmt::Fasta => 0,
        },
    }
}

/// well-formed file with unique ids
pub fn wf(rng: &mut Rng, fmt: Fmt, o: &GenOpts) -> (AbsFile, RenderOpts, Vec<u8>) {
    let abs = gen_abs(rng, fmt, o);
    let ro = gen_render_opts(rng, fmt);
    let bytes = render(&abs, &ro);
    (abs, ro, bytes)
}

/// unusual but valid shapes: header longer than the buffer, a record with very many
/// (also blank) lines, hundreds of blank lines, many tiny records
pub fn shaped(rng: &mut Rng, fmt: Fmt, tag: u64) -> (Vec<u8>, &'static str) {
    let crlf = rng.chance(1, 4);
    let t: &[u8] = if crlf { b"\r\n" } else { b"\n" };
    let mut out = vec![];
    let kind = rng.below(4);
    let n = 1 + rng.below(4);
    for i in 0..n {
        let mut head = format!("r{}_{}", tag, i).into_bytes();
        if kind == 0 {
            let l = 40 + rng.below(400);
            if rng.chance(1, 2) {
                head.push(b' ');
                head.extend((0..l).map(|k| b"abc >@+xyz"[k % 10]));
            } else {
                // long id without a space, multi-byte characters at varying offsets
                head.push(b'_');
                let start = head.len();
                while head.len() < start + l {
                    match rng.below(5) {
                        0 => head.extend_from_slice("\u{e9}".as_bytes()),
                        1 => head.extend_from_slice("\u{4e2d}".as_bytes()),
                        2 => head.push(0xfe),
                        _ => head.push(*rng.pick(b"abcXYZ019_")),
                    }
                }
            }
        }
        match fmt {
            Fmt::Fasta => {
                out.push(b'>');
                out.extend_from_slice(&head);
                out.extend_from_slice(t);
                let nl = match kind {
                    // now and then more lines than a 16-bit counter holds
                    1 => if i == 0 && rng.chance(1, 25) { 65_530 + rng.below(3000) } else { 200 + rng.below(3000) },
                    2 => 3,
                    _ => 1 + rng.below(4),
                };
                for j in 0..nl {
                    if kind == 1 && rng.chance(1, 5) {
                        // blank line inside the record
                    } else {
                        let l = if kind == 1 { rng.below(4) } else { rng.below(30) };
                        out.extend((0..l).map(|k| b"ACGT"[(k + j) % 4]));
                    }
                    out.extend_from_slice(t);
                    if kind == 2 && j == 1 {
                        for _ in 0..100 + rng.below(400) {
                            out.extend_from_slice(t);
                        }
                    }
                }
            }
            Fmt::Fastq => {
                let l = match kind {
                    1 => 500 + rng.below(3000),
                    _ => rng.below(30),
                };
                out.push(b'@');
                out.extend_from_slice(&head);
                out.extend_from_slice(t);
                out.extend((0..l).map(|k| b"ACGT+@"[k % 6]));
                out.extend_from_slice(t);
                out.push(b'+');
                out.extend_from_slice(t);
                out.extend((0..l).map(|k| b"I@+~!"[k % 5]));
                out.extend_from_slice(t);
            }
        }
    }
    if !rng.chance(2, 3) {
        // no final terminator
        let cut = t.len();
        out.truncate(out.len() - cut);
    }
    (out, ["shape-long-header", "shape-many-lines", "shape-blank-run", "shape-plain"][kind])
}

/// input crossing the 64 KiB default buffer: many records, with a structural byte of a
/// record placed at offset 65536 + delta
pub fn big64k(rng: &mut Rng, fmt: Fmt, tag: u64) -> Vec<u8> {
    let mut out = Vec::with_capacity(140_000);
    let delta: i64 = rng.range(0, 6) as i64 - 3;
    let target = (65536 + delta) as usize;
    let total = target + 2000 + rng.below(60_000);
    let mut i = 0usize;
    let mut placed = false;
    while out.len() < total {
        let head = format!("r{}_{}", tag, i);
        let mut l = 20 + rng.below(300);
        // overhead of one single-line record
        let over = match fmt {
            Fmt::Fasta => head.len() + 3,
            Fmt::Fastq => head.len() + 6,
        };
        if !placed && out.len() + 800 > target {
            // choose the length so that the end of this record's (first) sequence line hits the target
            let base = out.len() + head.len() + 2;
            if target > base {
                l = target - base;
            }
            placed = true;
        }
        match fmt {
            Fmt::Fasta => {
                out.push(b'>');
                out.extend_from_slice(head.as_bytes());
                out.push(b'\n');
                out.extend((0..l).map(|k| b"ACGT"[k % 4]));
                out.push(b'\n');
            }
            Fmt::Fastq => {
                out.push(b'@');
                out.extend_from_slice(head.as_bytes());
                out.push(b'\n');
                out.extend((0..l).map(|k| b"ACGT"[k % 4]));
                out.extend_from_slice(b"\n+\n");
                out.extend((0..l).map(|_| b'I'));
                out.push(b'\n');
            }
        }
        let _ = over;
        i += 1;
    }
    out
}

/// a record whose extent is a power of two (+-1): with the doubling default policy the
/// grown buffer is then exactly as long as the record, so its last line end is the last
/// byte of the full buffer
pub fn pow2_aligned(rng: &mut Rng, fmt: Fmt, tag: u64) -> Vec<u8> {
    // mostly up to 4 MiB; sometimes 8-16 MiB, beyond the 8 MiB threshold of the default policy
    let k = if rng.chance(1, 10) { rng.range(23, 24) } else { rng.range(16, 22) };
    let target = ((1usize << k) as i64 + rng.range(0, 2) as i64 - 1) as usize;
    let mut out = Vec::with_capacity(target + 4096);
    let n_before = rng.below(4);
    let mut idx = 0;
    let mut small = |out: &mut Vec<u8>, idx: &mut usize, rng: &mut Rng| {
        let l = 1 + rng.below(40);
        match fmt {
            Fmt::Fasta => {
                out.extend_from_slice(format!(">r{}_{}\n", tag, idx).as_bytes());
                out.extend((0..l).map(|k| b"ACGT"[k % 4]));
                out.push(b'\n');
            }
            Fmt::Fastq => {
                out.extend_from_slice(format!("@r{}_{}\n", tag, idx).as_bytes());
                out.extend((0..l).map(|k| b"ACGT"[k % 4]));
                out.extend_from_slice(b"\n+\n");
                out.extend((0..l).map(|_| b'I'));
                out.push(b'\n');
            }
        }
        *idx += 1;
    };
    for _ in 0..n_before {
        small(&mut out, &mut idx, rng);
    }
    let head = format!("r{}_{}", tag, idx);
    idx += 1;
    match fmt {
        Fmt::Fasta => {
            // '>' head LF lines... LF : extent = target, split into lines of 60-5000 bytes
            let mut left = target - (head.len() + 2);
            out.push(b'>');
            out.extend_from_slice(head.as_bytes());
            out.push(b'\n');
            let line = rng.range(60, 5000);
            while left > 0 {
                let l = (line.min(left) - 1).min(left - 1);
                out.extend((0..l).map(|k| b"ACGT"[k % 4]));
                out.push(b'\n');
                left -= l + 1;
            }
        }
        Fmt::Fastq => {
            // '@' head LF seq LF '+' LF qual LF : extent = head + 6 + 2 s
            let fixed = head.len() + 6;
            let s = (target - fixed) / 2;
            // an odd remainder goes into the header
            let pad = target - fixed - 2 * s;
            out.push(b'@');
            out.extend_from_slice(head.as_bytes());
            out.extend((0..pad).map(|_| b'x'));
            out.push(b'\n');
            out.extend((0..s).map(|k| b"ACGT"[k % 4]));
            out.extend_from_slice(b"\n+\n");
            out.extend((0..s).map(|_| b'I'));
            out.push(b'\n');
        }
    }
    // the input either ends here or goes on with more records
    if rng.chance(2, 3) {
        for _ in 0..1 + rng.below(3) {
            small(&mut out, &mut idx, rng);
        }
    }
    out
}

pub const HOSTILE: &[u8] = b"\n\r>@+ A\x00\xff";

pub fn mutate(rng: &mut Rng, data: &mut Vec<u8>) {
    let n = 1 + rng.below(4);
    for _ in 0..n {
        match rng.below(9) {
            0 => {
                if !data.is_empty() {
                    let i = rng.below(data.len());
                    data.remove(i);
                }
            }
            1 => {
                let i = rng.below(data.len() + 1);
                data.insert(i, *rng.pick(HOSTILE));
            }
            2 => {
                if !data.is_empty() {
                    let i = rng.below(data.len());
                    data[i] = *rng.pick(HOSTILE);
                }
            }
            3 => {
                let i = rng.below(data.len() + 1);
                data.truncate(i);
            }
            4 | 5 => {
                // drop or duplicate a line
                let lines: Vec<(usize, usize)> = line_ranges(data);
                if !lines.is_empty() {
                    let (s, e) = lines[rng.below(lines.len())];
                    if rng.chance(1, 2) {
                        data.drain(s..e);
                    } else {
                        let l = data[s..e].to_vec();
                        let at = e;
                        for (k, b) in l.into_iter().enumerate() {
                            data.insert(at + k, b);
                        }
                    }
                }
            }
            6 => {
                // swap two lines
                let lines = line_ranges(data);
                if lines.len() >= 2 {
                    let a = rng.below(lines.len());
                    let b = rng.below(lines.len());
                    let (a, b) = (a.min(b), a.max(b));
                    if a != b {
                        let la = data[lines[a].0..lines[a].1].to_vec();
                        let lb = data[lines[b].0..lines[b].1].to_vec();
                        let mut out = data[..lines[a].0].to_vec();
                        out.extend_from_slice(&lb);
                        out.extend_from_slice(&data[lines[a].1..lines[b].0]);
                        out.extend_from_slice(&la);
                        out.extend_from_slice(&data[lines[b].1..]);
                        *data = out;
                    }
                }
            }
            7 => {
                // strip a '+' or '@' or '>' at a line start
                let lines = line_ranges(data);
                let cands: Vec<usize> = lines
                    .iter()
                    .filter(|(s, e)| e > s && matches!(data[*s], b'+' | b'@' | b'>'))
                    .map(|(s, _)| *s)
                    .collect();
                if !cands.is_empty() {
                    let i = *rng.pick(&cands);
                    if rng.chance(1, 2) {
                        data.remove(i);
                    } else {
                        data[i] = *rng.pick(b"X>@+\r");
                    }
                }
            }
            _ => {
                // change the length of one line by one
                let lines = line_ranges(data);
                if !lines.is_empty() {
                    let (s, _) = lines[rng.below(lines.len())];
                    data.insert(s + (s < data.len()) as usize, b'A');
                }
            }
        }
    }
}

/// (start, end-including-LF) of every line
fn line_ranges(data: &[u8]) -> Vec<(usize, usize)> {
    let mut v = vec![];
    let mut s = 0;
    for (i, b) in data.iter().enumerate() {
        if *b == b'\n' {
            v.push((s, i + 1));
            s = i + 1;
        }
    }
    if s < data.len() {
        v.push((s, data.len()));
    }
    v
}

pub fn raw(rng: &mut Rng, fmt: Fmt, max_len: usize) -> Vec<u8> {
    let n = rng.below(max_len + 1);
    let alpha: &[u8] = match fmt {
        Fmt::Fasta => b"\n\n\r>>A A\x00\xff",
        Fmt::Fastq => b"\n\n\n\r@@++AA \xff",
    };
    (0..n).map(|_| *rng.pick(alpha)).collect()
}

pub fn small_alpha(fmt: Fmt) -> &'static [u8; 5] {
    match fmt {
        Fmt::Fasta => b"\n\r>A ",
        Fmt::Fastq => b"\n\r@+A",
    }
}

/// the `index`-th string in length-then-lexicographic order over the 5-letter alphabet
pub fn small_string(fmt: Fmt, mut index: u64) -> Vec<u8> {
    let alpha = small_alpha(fmt);
    let mut len = 0u32;
    let mut count = 1u64;
    while index >= count {
        index -= count;
        len += 1;
        count *= 5;
    }
    let mut s = vec![0u8; len as usize];
    for i in (0..len as usize).rev() {
        s[i] = alpha[(index % 5) as usize];
        index /= 5;
    }
    s
}

/// number of strings of length <= l
pub fn small_count(l: u32) -> u64 {
    (0..=l).map(|k| 5u64.pow(k)).sum()
}

// ---------------------------------------------------------------------------

#[derive(Clone, Debug, PartialEq, Eq)]
pub struct Config {
    pub cap: usize,
    pub policy: PolSpec,
    pub chunking: Chunking,
    pub interrupts: Interrupts,
}

impl Config {
    pub fn describe(&self) -> String {
        format!(
            "cap={} policy={:?} chunking={:?} interrupts={:?}",
            self.cap, self.policy, self.chunking, self.interrupts
        )
    }
}

pub fn gen_cap(rng: &mut Rng, len: usize, extents: &[usize]) -> usize {
    let c = match rng.below(12) {
        0..=4 => rng.range(3, 20),
        5 => *rng.pick(&[23usize, 24, 31, 32, 33, 47, 64, 100]),
        6 | 7 => {
            if extents.is_empty() {
                rng.range(3, 40)
            } else {
                let e = *rng.pick(extents);
                (e + rng.below(4)).saturating_sub(1)
            }
        }
        8 => (len + rng.below(3)).saturating_sub(1),
        9 => rng.range(3, 40),
        10 => rng.range(20, 100),
        _ => 65536,
    };
    c.max(3)
}

pub fn gen_growing_policy(rng: &mut Rng) -> PolSpec {
    if rng.chance(1, 15) {
        // a policy that answers "no change" once or twice before it grows: it never refuses
        let inner = match rng.below(3) {
            0 => PolSpec::Std,
            1 => PolSpec::Plus(rng.range(2, 9)),
            _ => PolSpec::Times(3),
        };
        return PolSpec::Hesitate(1 + rng.below(2), Box::new(inner));
    }
    match rng.below(9) {
        6 => PolSpec::Times(rng.range(3, 5)),
        7 => PolSpec::JumpTo(*rng.pick(&[16usize, 50, 200, 1000])),
        8 => PolSpec::Plus(rng.range(10, 60)),
        0 | 1 => PolSpec::Std,
        2 => PolSpec::DoubleUntil(*rng.pick(&[4usize, 8, 16, 64])),
        3 => PolSpec::PlusOne,
        4 => PolSpec::Plus(rng.range(2, 9)),
        _ => PolSpec::DoubleUntilLimited(*rng.pick(&[8usize, 32]), 1 << 30),
    }
}

/// Policies that grow by a small constant make reading a large record quadratic (every
/// step reallocates and copies the buffer). That is legitimate behaviour of the crate, but a
/// monitor with a CPU-time verdict must not generate it: for large inputs only doubling
/// policies are used.
pub fn tame_policy(p: &PolSpec, input_len: usize) -> PolSpec {
    if input_len <= 16_384 {
        return p.clone();
    }
    match p {
        PolSpec::Std | PolSpec::RefuseAlways | PolSpec::Times(_) => p.clone(),
        PolSpec::JumpTo(n) if *n >= 65536 => p.clone(),
        PolSpec::DoubleUntil(t) if *t >= 65536 => p.clone(),
        PolSpec::DoubleUntilLimited(t, _) if *t >= 65536 => p.clone(),
        PolSpec::DoubleUntilLimited(_, l) => PolSpec::DoubleUntilLimited(1 << 20, (*l).max(1 << 30)),
        PolSpec::RefuseFirst(n, inner) => PolSpec::RefuseFirst(*n, Box::new(tame_policy(inner, input_len))),
        PolSpec::Hesitate(n, inner) => PolSpec::Hesitate(*n, Box::new(tame_policy(inner, input_len))),
        _ => PolSpec::Std,
    }
}

pub fn tame(cfg: &mut Config, input_len: usize) {
    cfg.policy = tame_policy(&cfg.policy, input_len);
    if input_len > 16_384 {
        // one byte per read call is only slow, not wrong, but keep big cases cheap
        if matches!(cfg.chunking, Chunking::OneByte | Chunking::Fixed(2)) {
            cfg.chunking = Chunking::Fixed(4096);
        }
        if let Chunking::Seeded(s, k) = cfg.chunking {
            if k < 64 {
                cfg.chunking = Chunking::Seeded(s, 4096);
            }
        }
    }
}

/// A FASTQ file whose first record has a quality line that is too short by exactly the length of the
/// following record: the place where the quality line would end if it were as long as the sequence is a
/// line end followed by `@`. A parser that peeks there instead of searching the line end accepts the
/// file and swallows a record. Sequence lengths from a few bytes to 70 000.
pub fn qual_short_by_next_record(rng: &mut Rng, tag: u64) -> Vec<u8> {
    let crlf = rng.chance(1, 4);
    let t: &[u8] = if crlf { b"\r\n" } else { b"\n" };
    // the record(s) that would be swallowed
    let mut mid = vec![];
    for i in 0..1 + rng.below(2) {
        let l = rng.below(12);
        mid.extend_from_slice(format!("@r{}_{}", tag, i + 1).as_bytes());
        mid.extend_from_slice(t);
        mid.extend((0..l).map(|k| b"ACGT"[k % 4]));
        mid.extend_from_slice(t);
        mid.push(b'+');
        mid.extend_from_slice(t);
        mid.extend((0..l).map(|_| b'I'));
        mid.extend_from_slice(t);
    }
    let mid_no_lf = mid.len() - 1; // without the final LF
    let q = match rng.below(6) {
        0 if !cfg!(miri) => *rng.pick(&[4000usize, 4095, 4096, 4097, 8192, 65_536, 70_000]),
        1 if !cfg!(miri) => rng.range(1000, 5000),
        _ => rng.below(40),
    };
    // raw length of the sequence line (with its CR, without LF) = q + |T| + mid without its last LF
    let raw = q + t.len() + mid_no_lf;
    let l = raw - (t.len() - 1);
    let mut out = vec![];
    out.extend_from_slice(format!("@r{}_0", tag).as_bytes());
    out.extend_from_slice(t);
    out.extend((0..l).map(|k| b"ACGT"[k % 4]));
    out.extend_from_slice(t);
    out.push(b'+');
    out.extend_from_slice(t);
    out.extend((0..q).map(|_| b'I'));
    out.extend_from_slice(t);
    out.extend_from_slice(&mid);
    // the record behind the swallowed ones
    out.extend_from_slice(format!("@r{}_9", tag).as_bytes());
    out.extend_from_slice(t);
    out.extend_from_slice(b"AC");
    out.extend_from_slice(t);
    out.push(b'+');
    out.extend_from_slice(t);
    out.extend_from_slice(b"II");
    out.extend_from_slice(t);
    out
}

/// Things other tools put into sequence files and lenient parsers accept, but the documented rules
/// of this crate do not: byte order marks, comment lines, indentation, control characters, magic
/// numbers. One of them is inserted at the start of the file, at the start of a line or at the very end.
pub const FOREIGN_TOKENS: [&[u8]; 24] = [
    b"\xEF\xBB\xBF",
    b"\xFF\xFE",
    b"\xFE\xFF",
    b"\x1F\x8B",
    b" ",
    b"\t",
    b"  ",
    b";",
    b"#",
    b";comment\n",
    b"#comment\n",
    b"\x0C",
    b"\x0B",
    b"\x00",
    b"\xC2\x85",
    b"\xE2\x80\xA8",
    b"\x1A",
    b"\x04",
    b"\r",
    b"\r\r\n",
    b"\\n",
    b"//\n",
    b">>",
    b"@@",
];

pub fn insert_foreign_token(rng: &mut Rng, bytes: &mut Vec<u8>) -> usize {
    let k = rng.below(FOREIGN_TOKENS.len());
    let tok = FOREIGN_TOKENS[k];
    let line_starts: Vec<usize> = std::iter::once(0)
        .chain(bytes.iter().enumerate().filter(|(_, b)| **b == b'\n').map(|(i, _)| i + 1))
        .filter(|i| *i <= bytes.len())
        .collect();
    let at = match rng.below(4) {
        0 | 1 => 0,
        2 => *rng.pick(&line_starts),
        _ => bytes.len(),
    };
    for (j, b) in tok.iter().enumerate() {
        bytes.insert(at + j, *b);
    }
    k
}

pub fn gen_chunking(rng: &mut Rng) -> Chunking {
    if rng.chance(1, 25) {
        return Chunking::Short(1 + rng.below(2));
    }
    match rng.below(7) {
        0 | 1 => Chunking::Whole,
        2 => Chunking::OneByte,
        3 => Chunking::Fixed(2),
        4 => Chunking::Fixed(*rng.pick(&[3usize, 5, 7, 16])),
        _ => Chunking::Seeded(rng.next(), *rng.pick(&[2usize, 4, 9, 30])),
    }
}

pub fn gen_interrupts(rng: &mut Rng) -> Interrupts {
    if !cfg!(miri) && rng.chance(1, 60) {
        // a storm of consecutive interrupted reads before one of the first calls
        let n = *rng.pick(&[4usize, 17, 100, 255, 256, 1000, 1023, 1024, 1025, 4096, 5000, 65_535, 65_536, 70_000]);
        return Interrupts::Storm(n, rng.below(6));
    }
    match rng.below(8) {
        0 => Interrupts::BeforeEvery,
        1 => Interrupts::Seeded(rng.next(), rng.range(1, 8)),
        2 => Interrupts::Mask(rng.next()),
        _ => Interrupts::None,
    }
}

pub fn gen_config(rng: &mut Rng, len: usize, extents: &[usize]) -> Config {
    Config {
        cap: gen_cap(rng, len, extents),
        policy: gen_growing_policy(rng),
        chunking: gen_chunking(rng),
        interrupts: gen_interrupts(rng),
    }
}

/// hex of small inputs only (large ones are reproduced from seed, shard and index)
pub fn hex_limited(b: &[u8]) -> String {
    if b.len() <= 4096 {
        hex(b)
    } else {
        format!("<{} bytes: regenerate with --only>", b.len())
    }
}

pub fn hex(b: &[u8]) -> String {
    let mut s = String::with_capacity(b.len() * 2);
    for x in b {
        s.push_str(&format!("{:02x}", x));
    }
    s
}

/// printable rendering for samples
pub fn show(b: &[u8]) -> String {
    let mut s = String::new();
    for &x in b.iter().take(160) {
        match x {
            b'\n' => s.push_str("\\n"),
            b'\r' => s.push_str("\\r"),
            b'\\' => s.push_str("\\\\"),
            0x20..=0x7e => s.push(x as char),
            _ => s.push_str(&format!("\\x{:02x}", x)),
        }
    }
    if b.len() > 160 {
        s.push_str(&format!("...({} bytes)", b.len()));
    }
    s
}
