//! C01 C02 C03 C12 C17 — monitors over plain `next()` / set-read transcripts

use crate::api::{AnySet, ErrFull, Obs, RecObs, SetObs};
use crate::gen::{self, show, Config, GenOpts};
use crate::refmodel::{err_matches, fastq_step, ref_fasta, ErrObs, Fmt, QStep, RErr, RefStream};
use crate::report::{guarded, panic_sig, Caught, Report};
use crate::rng::{Fnv, Rng};
use crate::seqmon::{make_rig, transcript, Ctx, Transcript, Via};
use crate::src::{Chunking, Interrupts, PolSpec};
use serde_json::json;
use std::rc::Rc;

pub const EXH_CAPS: [usize; 8] = [3, 4, 5, 6, 7, 8, 11, 64];

pub fn exh_configs() -> Vec<Config> {
    let mut v = vec![];
    for &cap in &EXH_CAPS {
        for ch in [Chunking::Whole, Chunking::OneByte] {
            v.push(Config {
                cap,
                policy: PolSpec::Std,
                chunking: ch,
                interrupts: Interrupts::None,
            });
        }
    }
    v
}

pub fn case_sig(input: &[u8], cfg: &Config, extra: u64) -> u64 {
    let mut h = Fnv::new();
    h.bytes(input).bytes(cfg.describe().as_bytes()).u64(extra);
    h.finish()
}

pub fn caught_violation(rep: &mut Report, c: &Caught, what: &str, replay: serde_json::Value) {
    match c {
        Caught::Panic(m) => rep.violation(
            &panic_sig(m),
            format!("panic during {}: {}", what, m),
            replay,
        ),
        Caught::Budget(m) => rep.violation(
            "no-termination",
            format!("{} does not terminate (logical budget): {}", what, m),
            replay,
        ),
    }
}

/// exhaustive corpus component: number of strings this shard handles
pub fn exh_len(ctx: &Ctx, quick: u32, thorough: u32) -> u32 {
    if ctx.miri {
        // under Miri the (slow) budget goes to seeded cases with refills and growth
        0
    } else if ctx.tier_thorough {
        thorough
    } else {
        quick
    }
}

pub fn exh_cases_for_shard(total: u64, shard: u64, nshards: u64) -> u64 {
    if shard >= total {
        0
    } else {
        (total - shard + nshards - 1) / nshards
    }
}

/// seeded input of one of the generator families; returns (bytes, family)
pub fn seeded_input(rng: &mut Rng, fmt: Fmt, tag: u64) -> (Vec<u8>, &'static str) {
    let opts = GenOpts {
        tag,
        ..GenOpts::default()
    };
    if !cfg!(miri) {
        if rng.chance(1, 400) {
            return (gen::pow2_aligned(rng, fmt, tag), "pow2-aligned");
        }
        match rng.below(60) {
            0 => return (gen::big64k(rng, fmt, tag), "big-64k"),
            1 | 2 | 3 => {
                let (mut b, fam) = gen::shaped(rng, fmt, tag);
                if rng.chance(1, 3) {
                    // defects inside unusually shaped records
                    gen::mutate(rng, &mut b);
                }
                return (b, fam);
            }
            _ => {}
        }
    }
    if rng.chance(1, 12) {
        let mut b = gen::wf(rng, fmt, &opts).2;
        gen::insert_foreign_token(rng, &mut b);
        return (b, "foreign-token");
    }
    if fmt == Fmt::Fastq && rng.chance(1, 30) {
        return (gen::qual_short_by_next_record(rng, tag), "qual-short-by-next-record");
    }
    match rng.below(8) {
        0 | 1 | 2 => (gen::wf(rng, fmt, &opts).2, "wf"),
        3 | 4 => {
            let mut b = gen::wf(rng, fmt, &opts).2;
            gen::mutate(rng, &mut b);
            (b, "mutated")
        }
        5 => (gen::raw(rng, fmt, 48), "raw"),
        6 => {
            // leading blank lines weighted up (longer than small buffers)
            let mut o = gen::gen_render_opts(rng, fmt);
            if fmt == Fmt::Fasta {
                o.leading_blanks = rng.range(1, 30);
            }
            let abs = gen::gen_abs(rng, fmt, &opts);
            (gen::render(&abs, &o), "wf-blanks")
        }
        _ => {
            let big = GenOpts {
                max_recs: 40,
                giant: 6,
                tag,
                ..GenOpts::default()
            };
            (gen::wf(rng, fmt, &big).2, "wf-big")
        }
    }
}

/// A source that says "nothing more" a few times and then has more (a file that is being appended
/// to). Whatever the reader makes of that: once it has reported the end of input - or the one error -
/// every further call must report the end.
pub fn sticky_end_on_growing_source(fmt: Fmt, input: &Rc<Vec<u8>>, cfg: &Config, rng: &mut Rng) -> Result<bool, String> {
    if input.len() < 2 {
        return Ok(false);
    }
    // the pause sits behind a line end (or anywhere)
    let lf: Vec<usize> = input.iter().enumerate().filter(|(_, b)| **b == b'\n').map(|(i, _)| i + 1).filter(|i| *i < input.len()).collect();
    let at = if !lf.is_empty() && rng.chance(3, 4) { *rng.pick(&lf) } else { 1 + rng.below(input.len() - 1) };
    let k = *rng.pick(&[1usize, 2, 2, 3, 6]);
    crate::src::EOF_PAUSE.with(|e| e.set(Some((at, k))));
    let res = guarded(|| {
        let mut rig = crate::seqmon::make_rig(fmt, input.clone(), cfg, vec![]);
        let mut ended = false;
        for _ in 0..input.len() + 10 {
            rig.begin_op();
            match rig.r().next() {
                Obs::End => {
                    ended = true;
                    break;
                }
                Obs::Err(e) if e.obs.is_parse() => {
                    ended = true;
                    break;
                }
                _ => {}
            }
        }
        if !ended {
            return Err("the reader never reports the end".to_string());
        }
        for j in 0..8 {
            rig.begin_op();
            let o = rig.r().next();
            if !matches!(o, Obs::End) {
                return Err(format!(
                    "call {} after the end (or the error) was reported returns {} (the source answered Ok(0) {} times at offset {} and then delivered more)",
                    j + 1,
                    o.short(),
                    k,
                    at
                ));
            }
        }
        Ok(())
    });
    crate::src::EOF_PAUSE.with(|e| e.set(None));
    match res {
        Ok(Ok(())) => Ok(true),
        Ok(Err(m)) => Err(m),
        Err(Caught::Panic(m)) | Err(Caught::Budget(m)) => Err(format!("panic: {}", m)),
    }
}

fn cov_transcript(rep: &mut Report, t: &Transcript, input_len: usize, cfg: &Config) {
    if input_len > cfg.cap {
        rep.count("runs_with_refill");
    }
    if t.grow_calls > 0 {
        rep.count("runs_with_growth");
        rep.add("grow_calls", t.grow_calls as u64);
    }
    if t.full_lf_tail > 0 {
        rep.count("runs_lf_last_byte_of_full_buffer");
    }
    if t.full_cr_tail > 0 {
        rep.count("runs_cr_last_byte_of_full_buffer");
    }
    if input_len == cfg.cap {
        rep.count("runs_input_exactly_fills_buffer");
    }
    if t.interrupts > 0 {
        rep.count("runs_with_interrupted_reads");
    }
    rep.map("chunking", cfg.chunking.name());
}

/// Reads the input through the file-based constructors (`from_path`,
/// `from_path_with_capacity`) and returns the transcript of next() calls
pub fn transcript_from_path(fmt: Fmt, input: &[u8], cap: Option<usize>, max_calls: usize) -> Result<Vec<Obs>, String> {
    use crate::api::{fa_err, fa_ref_obs, fq_err, fq_ref_obs};
    use std::sync::atomic::{AtomicU64, Ordering};
    static N: AtomicU64 = AtomicU64::new(0);
    let dir = std::path::Path::new(env!("CARGO_MANIFEST_DIR")).join("target").join("verif-tmp");
    std::fs::create_dir_all(&dir).map_err(|e| e.to_string())?;
    let path = dir.join(format!("in_{}_{}", std::process::id(), N.fetch_add(1, Ordering::Relaxed)));
    std::fs::write(&path, input).map_err(|e| e.to_string())?;
    let mut out = vec![];
    let res = guarded(|| -> Result<(), String> {
        match fmt {
            Fmt::Fasta => {
                let mut r = match cap {
                    Some(c) => seq_io::fasta::Reader::from_path_with_capacity(&path, c),
                    None => seq_io::fasta::Reader::from_path(&path),
                }
                .map_err(|e| e.to_string())?;
                let mut term = 0;
                for _ in 0..max_calls {
                    let o = match r.next() {
                        None => Obs::End,
                        Some(Ok(rec)) => Obs::Rec(fa_ref_obs(&rec)),
                        Some(Err(e)) => Obs::Err(fa_err(e)),
                    };
                    let t = !matches!(o, Obs::Rec(_));
                    out.push(o);
                    if t {
                        term += 1;
                        if term == 3 {
                            break;
                        }
                    }
                }
            }
            Fmt::Fastq => {
                let mut r = match cap {
                    Some(c) => seq_io::fastq::Reader::from_path_with_capacity(&path, c),
                    None => seq_io::fastq::Reader::from_path(&path),
                }
                .map_err(|e| e.to_string())?;
                let mut term = 0;
                for _ in 0..max_calls {
                    let o = match r.next() {
                        None => Obs::End,
                        Some(Ok(rec)) => Obs::Rec(fq_ref_obs(&rec)),
                        Some(Err(e)) => Obs::Err(fq_err(e)),
                    };
                    let t = !matches!(o, Obs::Rec(_));
                    out.push(o);
                    if t {
                        term += 1;
                        if term == 3 {
                            break;
                        }
                    }
                }
            }
        }
        Ok(())
    });
    let _ = std::fs::remove_file(&path);
    match res {
        Ok(Ok(())) => Ok(out),
        Ok(Err(e)) => Err(e),
        Err(Caught::Panic(m)) | Err(Caught::Budget(m)) => Err(format!("panic: {}", m)),
    }
}

/// case indices of the once-per-shard components (a replay with `--only <index>` runs just them)
pub const SPECIAL_TINY_FILES: u64 = 4_000_000_000;
pub const SPECIAL_BLANK_PREFIX: u64 = 4_000_000_100;

/// every file of 0..=2 bytes over a structural alphabet through the file-based constructors (a reader
/// that looks at the file before it reads it must cope with the smallest files)
pub fn tiny_files_from_path(ctx: &Ctx, rep: &mut Report, fmt: Fmt) {
    let alpha: &[u8] = if fmt == Fmt::Fasta { b"\n\r>A " } else { b"\n\r@+A" };
    let mut files: Vec<Vec<u8>> = vec![vec![]];
    for a in alpha {
        files.push(vec![*a]);
        for b in alpha {
            files.push(vec![*a, *b]);
        }
    }
    for f in files {
        for cap in [None, Some(3usize)] {
            rep.evaluations += 1;
            rep.count("tiny_files_read_from_path");
            let mut j = ctx.replay_json(SPECIAL_TINY_FILES);
            j["file"] = json!(show(&f));
            j["from_path_capacity"] = json!(cap);
            match transcript_from_path(fmt, &f, cap, 6) {
                Err(m) => rep.violation(&format!("{}-from-path-tiny-file", fmt.name()), m, j),
                Ok(obs) => {
                    let rc = Rc::new(f.clone());
                    let res = match fmt {
                        Fmt::Fasta => check_fasta_transcript(&ref_fasta(&f), &obs, false, false),
                        Fmt::Fastq => check_fastq_transcript(&rc, &obs, false, false).map(|_| ()),
                    };
                    if let Err((sig, what)) = res {
                        rep.violation(&format!("{}-from-path-{}", fmt.name(), sig), what, j);
                    }
                }
            }
        }
    }
}

// ---------------------------------------------------------------------------
// C01

/// compares a `next()`/owned transcript with the FASTA reference stream
pub fn check_fasta_transcript(
    r: &RefStream,
    obs: &[Obs],
    owned: bool,
    check_err_fields: bool,
) -> Result<(), (String, String)> {
    let mut k = 0;
    for (i, rec) in r.recs.iter().enumerate() {
        match obs.get(k) {
            Some(Obs::Rec(o)) => {
                let ok = if owned { o.matches_owned(rec) } else { o.matches(rec) };
                if !ok {
                    return Err((
                        "wrong-record".into(),
                        format!("record {}: expected {:?}, observed {}", i, rec, o.short()),
                    ));
                }
            }
            Some(o) => {
                return Err((
                    "lost-record".into(),
                    format!(
                        "call {}: expected record {} (head {:?}), observed {}",
                        k,
                        i,
                        show(&rec.head),
                        o.short()
                    ),
                ))
            }
            None => {
                return Err((
                    "short-transcript".into(),
                    format!("transcript ended before record {}", i),
                ))
            }
        }
        k += 1;
    }
    if r.has_err() {
        match obs.get(k) {
            Some(Obs::Err(e)) if r.err.iter().any(|x| err_matches(&e.obs, x, check_err_fields)) => {}
            Some(o) => {
                return Err((
                    "wrong-error".into(),
                    format!("call {}: expected {:?}, observed {}", k, r.err, o.short()),
                ))
            }
            None => return Err(("short-transcript".into(), "no error reported".into())),
        }
        k += 1;
    }
    // the rest: end of input, at least twice
    let rest = &obs[k.min(obs.len())..];
    if rest.len() < 2 {
        return Err((
            "short-transcript".into(),
            format!("fewer than two calls after the end ({} answers in all)", obs.len()),
        ));
    }
    for (j, o) in rest.iter().enumerate() {
        if *o != Obs::End {
            return Err((
                "not-end".into(),
                format!(
                    "call {}: expected end of input, observed {}",
                    k + j,
                    o.short()
                ),
            ));
        }
    }
    Ok(())
}

fn c01_one(ctx: &Ctx, idx: u64, rep: &mut Report, input: Rc<Vec<u8>>, cfg: &Config, vias: &[Via], family: &str) {
    let r = ref_fasta(&input);
    for &via in vias {
        rep.evaluations += 1;
        let t = transcript(Fmt::Fasta, &input, cfg, via, r.recs.len() + 6, via == Via::Next);
        let replay = || {
            let mut j = ctx.replay_json(idx);
            j["input"] = json!(show(&input));
            j["input_hex"] = json!(gen::hex_limited(&input));
            j["config"] = json!(cfg.describe());
            j["via"] = json!(format!("{:?}", via));
            j
        };
        if let Some(c) = &t.caught {
            caught_violation(rep, c, "FASTA reading", replay());
            continue;
        }
        if let Some((k, m)) = &t.inv_failure {
            if k == "INV-W" || k == "INV-B" {
                rep.violation(k, m.clone(), replay());
            }
        }
        if let Err((sig, what)) = check_fasta_transcript(&r, &t.obs, via != Via::Next, false) {
            rep.violation(&format!("fasta-{}", sig), what, replay());
        }
        if via == Via::Next {
            cov_transcript(rep, &t, input.len(), cfg);
            rep.add("records_compared", r.recs.len() as u64);
            rep.add("records_with_more_than_65535_lines", r.recs.iter().filter(|x| x.lines.len() > 65535).count() as u64);
            if r.has_err() {
                rep.count("inputs_with_invalid_start");
            }
            if input.len() > cfg.cap && (!r.recs.is_empty() || r.has_err()) {
                rep.nontrivial.insert(case_sig(&input, cfg, 0));
            }
        }
        rep.map("via", &format!("{:?}", via));
    }
    rep.map("family", family);
    let exh = family == "small-exhaustive";
    if rep.want_sample() && !r.recs.is_empty() && input.len() > cfg.cap && (!exh || rep.samples.is_empty()) && (exh || r.recs.len() >= 2) {
        rep.sample(json!({"input": show(&input), "config": cfg.describe(), "family": family,
            "reference_records": r.recs.len(), "reference_error": format!("{:?}", r.err),
            "read_via": vias.iter().map(|v| format!("{:?}", v)).collect::<Vec<_>>()}));
    }
}

/// leading blank lines by the hundred thousand and by the million ("leading blank lines are skipped")
fn long_blank_prefix(ctx: &Ctx, rep: &mut Report, which: u64) {
    let n = [70_000usize, (1 << 20) + 1, (1 << 21) + 3][(which % 3) as usize];
    let crlf = (which / 3) % 2 == 1;
    let mut b = Vec::with_capacity(2 * n + 64);
    for _ in 0..n {
        if crlf {
            b.push(b'\r');
        }
        b.push(b'\n');
    }
    b.extend_from_slice(format!(">r{}_0 d\nACGT\nAC\n>r{}_1\nTTT\n", ctx.shard, ctx.shard).as_bytes());
    let input = Rc::new(b);
    let r = ref_fasta(&input);
    let cfg = Config {
        cap: if which % 2 == 0 { 65_536 } else { 4096 },
        policy: PolSpec::Std,
        chunking: if which % 4 < 2 { Chunking::Whole } else { Chunking::Fixed(100_000) },
        interrupts: Interrupts::None,
    };
    rep.evaluations += 1;
    rep.count("inputs_with_70000_to_2_million_leading_blank_lines");
    let t = transcript(Fmt::Fasta, &input, &cfg, Via::Next, 6, false);
    let mut j = ctx.replay_json(SPECIAL_BLANK_PREFIX + which);
    j["input"] = json!(format!("{} blank lines ({}) followed by two records", n, if crlf { "CRLF" } else { "LF" }));
    j["config"] = json!(cfg.describe());
    if let Some(c) = &t.caught {
        caught_violation(rep, c, "FASTA reading", j);
    } else if let Err((sig, what)) = check_fasta_transcript(&r, &t.obs, false, true) {
        rep.violation(&format!("fasta-{}", sig), what, j);
    }
}

pub fn c01(ctx: &Ctx, rep: &mut Report) {
    if !ctx.miri && ctx.only.map_or(ctx.shard == 0, |o| o == SPECIAL_TINY_FILES) {
        tiny_files_from_path(ctx, rep, Fmt::Fasta);
    }
    if !ctx.miri && ctx.only.map_or(true, |o| o >= SPECIAL_BLANK_PREFIX) {
        long_blank_prefix(ctx, rep, ctx.only.map_or(ctx.shard, |o| o - SPECIAL_BLANK_PREFIX));
    }
    if ctx.only.map_or(false, |o| o >= SPECIAL_TINY_FILES) {
        return;
    }
    let l = exh_len(ctx, 7, 9);
    let total = gen::small_count(l);
    let exh = exh_cases_for_shard(total, ctx.shard, ctx.nshards);
    let cfgs = exh_configs();
    let mut idx = ctx.only.unwrap_or(0);
    let mut exh_done = true;
    loop {
        // the exhaustive component is bounded work and is always completed
        if ctx.only.is_none() && ((idx >= exh && ctx.expired()) || idx >= ctx.max_cases) {
            if idx < exh {
                exh_done = false;
            }
            break;
        }
        if idx < exh {
            ctx.begin(idx);
            let g = idx * ctx.nshards + ctx.shard;
            let input = Rc::new(gen::small_string(Fmt::Fasta, g));
            for cfg in &cfgs {
                c01_one(ctx, idx, rep, input.clone(), cfg, &[Via::Next], "small-exhaustive");
            }
            rep.count("exhaustive_strings");
        } else {
            ctx.begin(idx);
            let mut rng = Rng::derive(&[ctx.seed, ctx.shard, idx, 1]);
            let (bytes, family) = seeded_input(&mut rng, Fmt::Fasta, ctx.shard);
            let r = ref_fasta(&bytes);
            let extents: Vec<usize> = r.recs.iter().map(|x| x.extent()).collect();
            let input = Rc::new(bytes);
            if !ctx.miri && rng.chance(1, 300) {
                // the file-based constructors
                let cap = if rng.chance(1, 2) { None } else { Some(gen::gen_cap(&mut rng, input.len(), &extents)) };
                rep.evaluations += 1;
                rep.count("reads_through_from_path");
                let mut j = ctx.replay_json(idx);
                j["input"] = json!(show(&input));
                j["from_path_capacity"] = json!(cap);
                match transcript_from_path(Fmt::Fasta, &input, cap, r.recs.len() + 6) {
                    Err(m) => rep.violation("from-path", m, j),
                    Ok(obs) => {
                        if let Err((sig, what)) = check_fasta_transcript(&r, &obs, false, false) {
                            rep.violation(&format!("fasta-from-path-{}", sig), what, j);
                        }
                    }
                }
            }
            for k in 0..2 {
                let mut cfg = gen::gen_config(&mut rng, input.len(), &extents);
                if ctx.miri {
                    cfg.cap = cfg.cap.min(3 + (idx as usize + k) % 14);
                }
                if family == "pow2-aligned" {
                    // default buffer and doubling policy (also from tiny capacities that double up to a power of two)
                    cfg.cap = *rng.pick(&[65536usize, 65536, 4096, 4, 8]);
                    cfg.policy = PolSpec::Std;
                    cfg.chunking = rng.pick(&[Chunking::Whole, Chunking::Fixed(65536), Chunking::Fixed(100_000)]).clone();
                }
                if family == "big-64k" {
                    // the default buffer size and its neighbours
                    cfg.cap = *rng.pick(&[65536usize, 65536, 65535, 65537, 32768]);
                    if matches!(cfg.chunking, Chunking::OneByte | Chunking::Fixed(_)) {
                        cfg.chunking = Chunking::Fixed(8192);
                    }
                }
                gen::tame(&mut cfg, input.len());
                let vias: &[Via] = if ctx.miri && k == 1 { &[Via::Records] } else if ctx.miri { &[Via::Next] } else { &[Via::Next, Via::Records, Via::IntoRecords] };
                c01_one(ctx, idx, rep, input.clone(), &cfg, vias, family);
                if k == 0 && !ctx.miri && input.len() < 20_000 && rng.chance(1, 3) {
                    rep.evaluations += 1;
                    match sticky_end_on_growing_source(Fmt::Fasta, &input, &cfg, &mut rng) {
                        Ok(true) => rep.count("ends_checked_on_a_growing_source"),
                        Ok(false) => {}
                        Err(m) => {
                            let mut j = ctx.replay_json(idx);
                            j["input"] = json!(show(&input));
                            j["config"] = json!(cfg.describe());
                            rep.violation("fasta-not-end-on-a-growing-source", m, j);
                        }
                    }
                }
            }
        }
        if ctx.only.is_some() {
            break;
        }
        idx += 1;
    }
    rep.counters.insert("exhaustive_length".into(), l as u64);
    rep.counters
        .insert("exhaustive_complete".into(), (exh_done && ctx.only.is_none()) as u64);
}

// ---------------------------------------------------------------------------
// C02 (and the field-exact variant used by C17)

fn unequal_trimmed_ok(e: &ErrObs, rec: &crate::refmodel::RRec) -> bool {
    match e {
        ErrObs::Unequal { seq, qual, .. } => {
            *seq == rec.lines[0].len() && *qual == rec.qual.as_ref().unwrap().len()
        }
        _ => false,
    }
}

/// Walks the FASTQ rules in lock-step with the observations. Returns the list
/// of (reference error, observed error) pairs for the terminal error (if any).
pub fn check_fastq_transcript(
    input: &[u8],
    obs: &[Obs],
    owned: bool,
    check_err_fields: bool,
) -> Result<Option<(Vec<RErr>, ErrFull)>, (String, String)> {
    let mut p = 0usize;
    let mut line = 1u64;
    let mut k = 0usize;
    let mut n_rec = 0usize;
    let mut terminal_err = None;
    loop {
        let step = fastq_step(input, p, line);
        let o = match obs.get(k) {
            Some(o) => o,
            None => {
                return Err((
                    "short-transcript".into(),
                    format!("transcript ended after {} answers at offset {}", k, p),
                ))
            }
        };
        match (step, o) {
            (QStep::End, Obs::End) => break,
            (QStep::End, o) => {
                return Err((
                    "not-end".into(),
                    format!("call {}: expected end of input, observed {}", k, o.short()),
                ))
            }
            (QStep::Truncated(errs), Obs::Err(e)) => {
                if !errs.iter().any(|x| err_matches(&e.obs, x, check_err_fields)) {
                    return Err((
                        "wrong-error".into(),
                        format!("call {}: expected one of {:?}, observed {:?}", k, errs, e.obs),
                    ));
                }
                terminal_err = Some((errs, e.clone()));
                k += 1;
                break;
            }
            (QStep::BlankTail3(_), Obs::End) => break,
            (QStep::BlankTail3(r), Obs::Err(e)) => {
                if !err_matches(&e.obs, &r, check_err_fields) {
                    return Err((
                        "wrong-error".into(),
                        format!("call {}: expected end or {:?}, observed {:?}", k, r, e.obs),
                    ));
                }
                terminal_err = Some((vec![r], e.clone()));
                k += 1;
                break;
            }
            (
                QStep::Group {
                    rec,
                    errs,
                    mixed,
                    next,
                },
                Obs::Rec(r),
            ) => {
                let only_len = errs.len() == 1 && matches!(errs[0], RErr::Unequal { .. });
                if !(errs.is_empty() || (mixed && only_len)) {
                    return Err((
                        "invalid-accepted".into(),
                        format!(
                            "call {}: group at line {} breaks {:?} but a record was returned: {}",
                            k,
                            line,
                            errs,
                            r.short()
                        ),
                    ));
                }
                let ok = if owned { r.matches_owned(&rec) } else { r.matches(&rec) };
                if !ok {
                    return Err((
                        "wrong-record".into(),
                        format!("record {}: expected {:?}, observed {}", n_rec, rec, r.short()),
                    ));
                }
                n_rec += 1;
                p = next;
                line += 4;
                k += 1;
            }
            (
                QStep::Group {
                    rec, errs, mixed, ..
                },
                Obs::Err(e),
            ) => {
                let only_len = errs.len() <= 1 && errs.iter().all(|x| matches!(x, RErr::Unequal { .. }));
                let ok = errs.iter().any(|x| err_matches(&e.obs, x, check_err_fields))
                    || (mixed && only_len && unequal_trimmed_ok(&e.obs, &rec));
                if !ok {
                    return Err((
                        if errs.is_empty() { "valid-rejected" } else { "wrong-error" }.into(),
                        format!(
                            "call {}: group at line {} (broken rules {:?}, record {:?}): observed {:?}",
                            k, line, errs, rec, e.obs
                        ),
                    ));
                }
                terminal_err = Some((errs, e.clone()));
                k += 1;
                break;
            }
            (QStep::Group { rec, .. }, Obs::End) => {
                return Err((
                    "lost-record".into(),
                    format!(
                        "call {}: end of input reported but a group starts at line {} ({:?})",
                        k, line, rec
                    ),
                ))
            }
            (QStep::Truncated(errs), o) => {
                return Err((
                    "wrong-error".into(),
                    format!("call {}: expected one of {:?}, observed {}", k, errs, o.short()),
                ))
            }
            (QStep::BlankTail3(r), o) => {
                return Err((
                    "wrong-error".into(),
                    format!("call {}: expected end or {:?}, observed {}", k, r, o.short()),
                ))
            }
        }
    }
    let rest = &obs[k.min(obs.len())..];
    if rest.len() < 2 {
        return Err((
            "short-transcript".into(),
            format!("fewer than two calls after the end ({} answers in all)", obs.len()),
        ));
    }
    for (j, o) in rest.iter().enumerate() {
        if *o != Obs::End {
            return Err((
                "not-end".into(),
                format!("call {}: expected end of input, observed {}", k + j, o.short()),
            ));
        }
    }
    Ok(terminal_err)
}

pub fn max_fastq_calls(input: &[u8]) -> usize {
    input.iter().filter(|b| **b == b'\n').count() / 4 + 8
}

fn c02_one(ctx: &Ctx, idx: u64, rep: &mut Report, input: Rc<Vec<u8>>, cfg: &Config, vias: &[Via], family: &str) {
    for &via in vias {
        rep.evaluations += 1;
        let t = transcript(Fmt::Fastq, &input, cfg, via, max_fastq_calls(&input), via == Via::Next);
        let replay = || {
            let mut j = ctx.replay_json(idx);
            j["input"] = json!(show(&input));
            j["input_hex"] = json!(gen::hex_limited(&input));
            j["config"] = json!(cfg.describe());
            j["via"] = json!(format!("{:?}", via));
            j
        };
        if let Some(c) = &t.caught {
            caught_violation(rep, c, "FASTQ reading", replay());
            continue;
        }
        if let Some((k, m)) = &t.inv_failure {
            if k == "INV-W" || k == "INV-B" {
                rep.violation(k, m.clone(), replay());
            }
        }
        match check_fastq_transcript(&input, &t.obs, via != Via::Next, false) {
            Err((sig, what)) => rep.violation(&format!("fastq-{}", sig), what, replay()),
            Ok(term) => {
                if via == Via::Next {
                    if let Some((_, e)) = term {
                        rep.map("error_kinds", e.obs.kind_name());
                    }
                }
            }
        }
        if via == Via::Next {
            cov_transcript(rep, &t, input.len(), cfg);
            let n_rec = t.obs.iter().filter(|o| matches!(o, Obs::Rec(_))).count();
            rep.add("records_compared", n_rec as u64);
            if input.len() > cfg.cap && t.obs.iter().any(|o| !matches!(o, Obs::End)) {
                rep.nontrivial.insert(case_sig(&input, cfg, 0));
            }
        }
        rep.map("via", &format!("{:?}", via));
    }
    rep.map("family", family);
    let exh = family == "small-exhaustive";
    if rep.want_sample() && input.len() > cfg.cap && (if exh { rep.samples.is_empty() && input.len() >= 7 } else { input.len() > 30 }) {
        let r = crate::refmodel::ref_fastq(&input);
        rep.sample(json!({"input": show(&input), "config": cfg.describe(), "family": family,
            "reference_records": r.recs.len(), "reference_error": format!("{:?}", r.err),
            "read_via": vias.iter().map(|v| format!("{:?}", v)).collect::<Vec<_>>()}));
    }
}

pub fn c02(ctx: &Ctx, rep: &mut Report) {
    if !ctx.miri && ctx.only.map_or(ctx.shard == 0, |o| o == SPECIAL_TINY_FILES) {
        tiny_files_from_path(ctx, rep, Fmt::Fastq);
    }
    if ctx.only.map_or(false, |o| o >= SPECIAL_TINY_FILES) {
        return;
    }
    let l = exh_len(ctx, 7, 9);
    let total = gen::small_count(l);
    let exh = exh_cases_for_shard(total, ctx.shard, ctx.nshards);
    let cfgs = exh_configs();
    let mut idx = ctx.only.unwrap_or(0);
    let mut exh_done = true;
    loop {
        // the exhaustive component is bounded work and is always completed
        if ctx.only.is_none() && ((idx >= exh && ctx.expired()) || idx >= ctx.max_cases) {
            if idx < exh {
                exh_done = false;
            }
            break;
        }
        if idx < exh {
            ctx.begin(idx);
            let g = idx * ctx.nshards + ctx.shard;
            let input = Rc::new(gen::small_string(Fmt::Fastq, g));
            for cfg in &cfgs {
                if cfg.cap == 8 || cfg.cap == 11 {
                    continue;
                }
                c02_one(ctx, idx, rep, input.clone(), cfg, &[Via::Next], "small-exhaustive");
            }
            rep.count("exhaustive_strings");
        } else {
            ctx.begin(idx);
            let mut rng = Rng::derive(&[ctx.seed, ctx.shard, idx, 2]);
            let (bytes, family) = seeded_input(&mut rng, Fmt::Fastq, ctx.shard);
            let r = crate::refmodel::ref_fastq(&bytes);
            let extents: Vec<usize> = r.recs.iter().map(|x| x.extent()).collect();
            let input = Rc::new(bytes);
            if !ctx.miri && rng.chance(1, 300) {
                let cap = if rng.chance(1, 2) { None } else { Some(gen::gen_cap(&mut rng, input.len(), &extents)) };
                rep.evaluations += 1;
                rep.count("reads_through_from_path");
                let mut j = ctx.replay_json(idx);
                j["input"] = json!(show(&input));
                j["from_path_capacity"] = json!(cap);
                match transcript_from_path(Fmt::Fastq, &input, cap, max_fastq_calls(&input)) {
                    Err(m) => rep.violation("from-path", m, j),
                    Ok(obs) => {
                        if let Err((sig, what)) = check_fastq_transcript(&input, &obs, false, false) {
                            rep.violation(&format!("fastq-from-path-{}", sig), what, j);
                        }
                    }
                }
            }
            for k in 0..2 {
                let mut cfg = gen::gen_config(&mut rng, input.len(), &extents);
                if ctx.miri {
                    cfg.cap = cfg.cap.min(3 + (idx as usize + k) % 14);
                }
                if family == "pow2-aligned" {
                    // default buffer and doubling policy (also from tiny capacities that double up to a power of two)
                    cfg.cap = *rng.pick(&[65536usize, 65536, 4096, 4, 8]);
                    cfg.policy = PolSpec::Std;
                    cfg.chunking = rng.pick(&[Chunking::Whole, Chunking::Fixed(65536), Chunking::Fixed(100_000)]).clone();
                }
                if family == "big-64k" {
                    // the default buffer size and its neighbours
                    cfg.cap = *rng.pick(&[65536usize, 65536, 65535, 65537, 32768]);
                    if matches!(cfg.chunking, Chunking::OneByte | Chunking::Fixed(_)) {
                        cfg.chunking = Chunking::Fixed(8192);
                    }
                }
                gen::tame(&mut cfg, input.len());
                let vias: &[Via] = if ctx.miri && k == 1 { &[Via::Records] } else if ctx.miri { &[Via::Next] } else { &[Via::Next, Via::Records, Via::IntoRecords] };
                c02_one(ctx, idx, rep, input.clone(), &cfg, vias, family);
                if k == 0 && !ctx.miri && input.len() < 20_000 && rng.chance(1, 3) {
                    rep.evaluations += 1;
                    match sticky_end_on_growing_source(Fmt::Fastq, &input, &cfg, &mut rng) {
                        Ok(true) => rep.count("ends_checked_on_a_growing_source"),
                        Ok(false) => {}
                        Err(m) => {
                            let mut j = ctx.replay_json(idx);
                            j["input"] = json!(show(&input));
                            j["config"] = json!(cfg.describe());
                            rep.violation("fastq-not-end-on-a-growing-source", m, j);
                        }
                    }
                }
            }
        }
        if ctx.only.is_some() {
            break;
        }
        idx += 1;
    }
    rep.counters.insert("exhaustive_length".into(), l as u64);
    rep.counters
        .insert("exhaustive_complete".into(), (exh_done && ctx.only.is_none()) as u64);
}

// ---------------------------------------------------------------------------
// C03 — metamorphic: one input, many configurations

/// Transcript of set reading: record stream, terminal answer, and the reported
/// position keyed by the index of the next unread record
pub struct SetTranscript {
    pub recs: Vec<RecObs>,
    pub terminal: Option<Obs>,
    pub positions: Vec<(usize, (u64, u64))>,
    pub caught: Option<Caught>,
    pub batches: usize,
}

pub fn set_transcript(fmt: Fmt, input: &Rc<Vec<u8>>, cfg: &Config, max_calls: usize) -> SetTranscript {
    set_transcript_n(fmt, input, cfg, max_calls, None)
}

/// the same with exact-count reads of `n` records
pub fn set_transcript_n(fmt: Fmt, input: &Rc<Vec<u8>>, cfg: &Config, max_calls: usize, n: Option<usize>) -> SetTranscript {
    let mut rig = make_rig(fmt, input.clone(), cfg, vec![]);
    let mut set = AnySet::new(fmt);
    let mut t = SetTranscript {
        recs: vec![],
        terminal: None,
        positions: vec![],
        caught: None,
        batches: 0,
    };
    for _ in 0..max_calls {
        rig.begin_op();
        let res = guarded(|| rig.r().read_set(&mut set, n));
        match res {
            Err(c) => {
                t.caught = Some(c);
                break;
            }
            Ok(SetObs::Ok) => {
                t.batches += 1;
                t.recs.extend(set.records());
                if let Some(p) = rig.rr().position() {
                    t.positions.push((t.recs.len(), p));
                }
            }
            Ok(SetObs::Err(e)) => {
                t.terminal = Some(Obs::Err(e));
                break;
            }
            Ok(SetObs::End) => {
                t.terminal = Some(Obs::End);
                break;
            }
        }
    }
    t
}

fn c03_configs(rng: &mut Rng, len: usize, extents: &[usize], n: usize) -> Vec<Config> {
    let pols = [
        PolSpec::Std,
        PolSpec::DoubleUntil(8),
        PolSpec::PlusOne,
        PolSpec::DoubleUntilLimited(16, 1 << 40),
        PolSpec::Plus(3),
        PolSpec::Times(3),
        PolSpec::Times(4),
        PolSpec::Plus(17),
        PolSpec::JumpTo(40),
        PolSpec::Hesitate(1, Box::new(PolSpec::Std)),
        PolSpec::Hesitate(2, Box::new(PolSpec::Plus(5))),
    ];
    let mut v = vec![];
    // the first configuration is the "natural" one: everything in one buffer
    v.push(Config {
        cap: 65536,
        policy: PolSpec::Std,
        chunking: Chunking::Whole,
        interrupts: Interrupts::None,
    });
    for i in 0..n {
        let cap = gen::gen_cap(rng, len, extents);
        let chunking = match i % 6 {
            0 => Chunking::Whole,
            1 => Chunking::OneByte,
            2 => Chunking::Fixed(2),
            3 => Chunking::Fixed(7),
            _ => Chunking::Seeded(rng.next(), *rng.pick(&[2usize, 5, 13])),
        };
        let interrupts = match rng.below(4) {
            0 => Interrupts::BeforeEvery,
            1 => Interrupts::Seeded(rng.next(), rng.range(1, 10)),
            2 if !cfg!(miri) && rng.chance(1, 10) => Interrupts::Storm(*rng.pick(&[100usize, 1024, 1025, 4096, 70_000]), rng.below(5)),
            _ => Interrupts::None,
        };
        v.push(Config {
            cap,
            policy: pols[rng.below(pols.len())].clone(),
            chunking,
            interrupts,
        });
    }
    v
}

fn obs_key(o: &Obs) -> String {
    match o {
        Obs::Rec(r) => format!("R:{}", r.short()),
        Obs::Err(e) => format!("E:{}", e.debug),
        Obs::End => "END".into(),
    }
}

pub fn c03(ctx: &Ctx, rep: &mut Report) {
    let mut idx = ctx.only.unwrap_or(0);
    loop {
        if ctx.only.is_none() && (ctx.expired() || idx >= ctx.max_cases) {
            break;
        }
        ctx.begin(idx);
        let mut rng = Rng::derive(&[ctx.seed, ctx.shard, idx, 3]);
        let fmt = if idx % 2 == 0 { Fmt::Fasta } else { Fmt::Fastq };
        // a quarter of the inputs come from the deterministic small corpus
        // growth by thousands of bytes with every way of delivering the bytes: one record longer than a
        // capacity of 4096 / 8192 / 65536 in front of a few small ones
        let grow_big = !ctx.miri && (idx % 60 == 8 || idx % 60 == 9);
        let big_cap = *rng.pick(&[4096usize, 4096, 8192, 65_536]);
        let (bytes, family) = if grow_big {
            let mut b = vec![];
            let l = big_cap + 1 + rng.below(2 * big_cap);
            for i in 0..4 {
                let n = if i == 1 { l } else { 5 + rng.below(40) };
                match fmt {
                    Fmt::Fasta => {
                        b.extend_from_slice(format!(">r{}_{}\n", ctx.shard, i).as_bytes());
                        b.extend((0..n).map(|k| b"ACGT"[k % 4]));
                        b.push(b'\n');
                    }
                    Fmt::Fastq => {
                        b.extend_from_slice(format!("@r{}_{}\n", ctx.shard, i).as_bytes());
                        b.extend((0..n).map(|k| b"ACGT"[k % 4]));
                        b.extend_from_slice(b"\n+\n");
                        b.extend((0..n).map(|_| b'I'));
                        b.push(b'\n');
                    }
                }
            }
            (b, "grow-big")
        } else if idx % 4 >= 2 {
            let l = if ctx.tier_thorough { 9 } else { 8 };
            let g = rng.next() % gen::small_count(l);
            (gen::small_string(fmt, g), "small")
        } else {
            seeded_input(&mut rng, fmt, ctx.shard)
        };
        let r = fmt.reference(&bytes);
        let extents: Vec<usize> = r.recs.iter().map(|x| x.extent()).collect();
        let input = Rc::new(bytes);
        let ncfg = if ctx.miri { 3 } else { rng.range(7, 23) };
        let mut cfgs = c03_configs(&mut rng, input.len(), &extents, ncfg);
        for c in cfgs.iter_mut() {
            gen::tame(c, input.len());
        }
        if grow_big {
            cfgs.clear();
            for chunking in [
                Chunking::Whole,
                Chunking::Short(1),
                Chunking::Short(2),
                Chunking::Fixed(4096),
                Chunking::Fixed(4095),
                Chunking::Seeded(rng.next(), 5000),
            ] {
                for policy in [PolSpec::Std, PolSpec::DoubleUntil(1 << 20), PolSpec::Times(3), PolSpec::JumpTo(4 * big_cap + 7)] {
                    cfgs.push(Config {
                        cap: big_cap,
                        policy,
                        chunking: chunking.clone(),
                        interrupts: Interrupts::None,
                    });
                }
            }
        }
        if input.len() > 200_000 {
            cfgs.truncate(5);
        }
        let max_calls = match fmt {
            Fmt::Fasta => r.recs.len() + 6,
            Fmt::Fastq => max_fastq_calls(&input),
        };
        let mut base: Option<(Vec<String>, Vec<Option<(u64, u64)>>)> = None;
        let mut base_set: Option<(Vec<RecObs>, Option<String>, Vec<(usize, (u64, u64))>)> = None;
        let replay = |cfg: &Config, mode: &str| {
            let mut j = ctx.replay_json(idx);
            j["input"] = json!(show(&input));
            j["input_hex"] = json!(gen::hex_limited(&input));
            j["first_config"] = json!(cfgs[0].describe());
            j["config"] = json!(cfg.describe());
            j["mode"] = json!(mode);
            j
        };
        let mut case_nontrivial = false;
        for cfg in &cfgs {
            rep.evaluations += 1;
            let t = transcript(fmt, &input, cfg, Via::Next, max_calls, true);
            if let Some(c) = &t.caught {
                caught_violation(rep, c, "reading", replay(cfg, "next"));
                continue;
            }
            if let Some((k, m)) = &t.inv_failure {
                // early warning: positions bookkeeping / window
                rep.violation(k, format!("{} ({})", m, cfg.describe()), replay(cfg, "next"));
            }
            cov_transcript(rep, &t, input.len(), cfg);
            rep.map("policy", &format!("{:?}", cfg.policy).split('(').next().unwrap().to_string());
            if input.len() > cfg.cap {
                case_nontrivial = true;
            }
            let keys: Vec<String> = t.obs.iter().map(obs_key).collect();
            // FASTA reports no position before the first record was parsed / after the end;
            // compare the positions after record answers (always reported) and after errors
            let pos: Vec<Option<(u64, u64)>> = t
                .obs
                .iter()
                .zip(&t.positions)
                .map(|(o, p)| if matches!(o, Obs::End) { None } else { *p })
                .collect();
            match &base {
                None => base = Some((keys, pos)),
                Some((bk, bp)) => {
                    if let Some(i) = (0..bk.len().max(keys.len())).find(|i| bk.get(*i) != keys.get(*i)) {
                        rep.violation(
                            "config-dependent-answer",
                            format!(
                                "{}: call {} answers {:?} under the first configuration but {:?} under {}",
                                fmt.name(),
                                i,
                                bk.get(i),
                                keys.get(i),
                                cfg.describe()
                            ),
                            replay(cfg, "next"),
                        );
                    } else if let Some(i) = (0..bp.len()).find(|i| bp[*i] != pos[*i]) {
                        rep.violation(
                            "config-dependent-position",
                            format!(
                                "{}: position after call {} is {:?} under the first configuration but {:?} under {}",
                                fmt.name(),
                                i,
                                bp[i],
                                pos[i],
                                cfg.describe()
                            ),
                            replay(cfg, "next"),
                        );
                    }
                    rep.add("answers_compared", keys.len() as u64);
                }
            }
            // set reading
            rep.evaluations += 1;
            let st = set_transcript(fmt, &input, cfg, max_calls);
            if let Some(c) = &st.caught {
                caught_violation(rep, c, "set reading", replay(cfg, "sets"));
                continue;
            }
            rep.add("set_batches", st.batches as u64);
            let term = st.terminal.as_ref().map(obs_key);
            match &base_set {
                None => base_set = Some((st.recs, term, st.positions)),
                Some((brecs, bterm, bpos)) => {
                    // an error may be reported ahead of the records before it (C04), so only
                    // the common prefix of the record streams is compared when an error ends one
                    let both_end = bterm.as_deref() == Some("END") && term.as_deref() == Some("END");
                    let n = brecs.len().min(st.recs.len());
                    if brecs[..n] != st.recs[..n] || (both_end && brecs.len() != st.recs.len()) {
                        rep.violation(
                            "config-dependent-set-records",
                            format!(
                                "{}: set reading delivers {} records under the first configuration, {} under {} (or contents differ)",
                                fmt.name(),
                                brecs.len(),
                                st.recs.len(),
                                cfg.describe()
                            ),
                            replay(cfg, "sets"),
                        );
                    } else if *bterm != term {
                        rep.violation(
                            "config-dependent-set-terminal",
                            format!(
                                "{}: set reading ends with {:?} under the first configuration but {:?} under {}",
                                fmt.name(),
                                bterm,
                                term,
                                cfg.describe()
                            ),
                            replay(cfg, "sets"),
                        );
                    }
                    for (i, p) in &st.positions {
                        if let Some((_, bp)) = bpos.iter().find(|(bi, _)| bi == i) {
                            rep.count("set_positions_compared");
                            if bp != p {
                                rep.violation(
                                    "config-dependent-set-position",
                                    format!(
                                        "{}: position reported before record {} is {:?} under the first configuration but {:?} under {}",
                                        fmt.name(), i, bp, p, cfg.describe()
                                    ),
                                    replay(cfg, "sets"),
                                );
                            }
                        }
                    }
                    // positions of one configuration feed later comparisons too
                    let mut add = vec![];
                    for (i, p) in &st.positions {
                        if !bpos.iter().any(|(bi, _)| bi == i) {
                            add.push((*i, *p));
                        }
                    }
                    if !add.is_empty() {
                        if let Some(b) = base_set.as_mut() {
                            b.2.extend(add);
                        }
                    }
                }
            }
            // exact-count reads: the record stream and the batch sizes (n, except the last) must not
            // depend on the configuration either, and must be the stream of the plain reads
            if let Some((brecs, bterm, _)) = &base_set {
                let n = [1usize, 2, 3, 7][(idx as usize + cfg.cap) % 4];
                rep.evaluations += 1;
                let st = set_transcript_n(fmt, &input, cfg, max_calls * 2 + 4, Some(n));
                if let Some(c) = &st.caught {
                    caught_violation(rep, c, "exact-count set reading", replay(cfg, "exact"));
                } else {
                    let term = st.terminal.as_ref().map(obs_key);
                    let both_end = bterm.as_deref() == Some("END") && term.as_deref() == Some("END");
                    let m = brecs.len().min(st.recs.len());
                    if brecs[..m] != st.recs[..m] || (both_end && brecs.len() != st.recs.len()) {
                        rep.violation(
                            "config-dependent-exact-records",
                            format!(
                                "{}: exact reads of {} deliver {} records under {}, plain set reads under the first configuration deliver {} (or contents differ)",
                                fmt.name(), n, st.recs.len(), cfg.describe(), brecs.len()
                            ),
                            replay(cfg, "exact"),
                        );
                    } else if both_end && st.batches != (brecs.len() + n - 1) / n {
                        rep.violation(
                            "exact-batch-sizes",
                            format!("{}: {} records in {} exact batches of {} under {}", fmt.name(), brecs.len(), st.batches, n, cfg.describe()),
                            replay(cfg, "exact"),
                        );
                    }
                    rep.add("exact_batches_compared", st.batches as u64);
                }
            }
        }
        rep.count("inputs");
        rep.map("family", family);
        rep.map("format", fmt.name());
        if case_nontrivial && (!r.recs.is_empty() || r.has_err()) {
            let mut h = Fnv::new();
            h.bytes(&input).u64(cfgs.len() as u64).u64(idx);
            rep.nontrivial.insert(h.finish());
            if rep.want_sample() {
                rep.sample(json!({"input": show(&input), "format": fmt.name(),
                    "configurations": cfgs.iter().take(4).map(|c| c.describe()).collect::<Vec<_>>(),
                    "n_configurations": cfgs.len()}));
            }
        }
        if ctx.only.is_some() {
            break;
        }
        idx += 1;
    }
}

// ---------------------------------------------------------------------------
// C17 — planted defects, exact error fields and message text

fn esc_forms(found: u8) -> Vec<String> {
    vec![
        (found as char).escape_default().to_string(),
        (found as char).to_string(),
        format!("0x{:02x}", found),
        format!("0x{:02X}", found),
        format!("{}", found),
        std::ascii::escape_default(found).to_string(),
    ]
}

pub fn check_message(e: &ErrFull) -> Result<(), String> {
    let d = &e.display;
    let has_line = |l: u64| d.contains(&l.to_string());
    let has_id = |id: &Option<String>| id.as_ref().map_or(true, |i| d.contains(i.as_str()));
    let ok = match &e.obs {
        ErrObs::InvalidStart { line, found, id } => {
            has_line(*line) && esc_forms(*found).iter().any(|f| d.contains(f.as_str())) && has_id(id)
        }
        ErrObs::InvalidSep { line, found, id } => {
            has_line(*line) && esc_forms(*found).iter().any(|f| d.contains(f.as_str())) && has_id(id)
        }
        ErrObs::Unequal { line, seq, qual, id } => {
            has_line(*line) && d.contains(&seq.to_string()) && d.contains(&qual.to_string()) && has_id(id)
        }
        ErrObs::UnexpectedEnd { line, id } => has_line(*line) && has_id(id),
        _ => true,
    };
    if ok {
        Ok(())
    } else {
        Err(format!("message {:?} does not contain the values of {:?}", d, e.obs))
    }
}

/// plants one defect into a well-formed FASTQ file at record `at`
pub fn plant_fastq(rng: &mut Rng, abs: &gen::AbsFile, ro: &gen::RenderOpts, at: usize) -> (Vec<u8>, &'static str) {
    let mut prefix = gen::AbsFile {
        fmt: Fmt::Fastq,
        recs: abs.recs[..at].to_vec(),
    };
    let full_ro = gen::RenderOpts {
        final_term: true,
        trailing_blanks: 0,
        leading_blanks: 0,
        ends: ro.ends.clone(),
    };
    let mut out = gen::render(&prefix, &full_ro);
    let term: &[u8] = if ro.ends == gen::LineEnd::Crlf { b"\r\n" } else { b"\n" };
    let r = &abs.recs[at];
    let q = r.qual.as_ref().unwrap();
    let kind = rng.below(8);
    let name;
    let mut push_line = |out: &mut Vec<u8>, parts: &[&[u8]], t: bool| {
        for p in parts {
            out.extend_from_slice(p);
        }
        if t {
            out.extend_from_slice(term);
        }
    };
    match kind {
        0 => {
            name = "wrong-start";
            let b = *rng.pick(b"X>+ \rA");
            push_line(&mut out, &[&[b], &r.head], true);
            push_line(&mut out, &[&r.lines[0]], true);
            push_line(&mut out, &[b"+"], true);
            push_line(&mut out, &[q], true);
        }
        1 => {
            name = "wrong-sep";
            push_line(&mut out, &[b"@", &r.head], true);
            push_line(&mut out, &[&r.lines[0]], true);
            match rng.below(3) {
                0 => push_line(&mut out, &[], true),
                1 => push_line(&mut out, &[b"-"], true),
                _ => push_line(&mut out, &[b"@x"], true),
            }
            push_line(&mut out, &[q], true);
        }
        2 | 3 => {
            name = "length-mismatch";
            push_line(&mut out, &[b"@", &r.head], true);
            push_line(&mut out, &[&r.lines[0]], true);
            push_line(&mut out, &[b"+"], true);
            let mut q2 = q.clone();
            if kind == 2 || q2.is_empty() {
                q2.extend_from_slice(&b"II"[..1 + rng.below(2)]);
            } else {
                q2.pop();
            }
            let t = rng.chance(2, 3);
            push_line(&mut out, &[&q2], t);
            if !t {
                return (out, name);
            }
        }
        _ => {
            // truncation after 1..=3 lines, with or without the LF of the last line present;
            // at least one byte of the group remains
            name = "truncated";
            let n_lines = 1 + rng.below(3);
            let t_last = rng.chance(1, 2);
            let head_line: Vec<u8> = [b"@".as_slice(), &r.head].concat();
            let lines: [&[u8]; 3] = [&head_line, &r.lines[0], b"+"];
            for (i, l) in lines.iter().take(n_lines).enumerate() {
                let last = i + 1 == n_lines;
                push_line(&mut out, &[l], !last || t_last);
            }
            return (out, name);
        }
    }
    // the rest of the file follows the defect
    prefix.recs = abs.recs[at + 1..].to_vec();
    out.extend_from_slice(&gen::render(&prefix, ro));
    (out, name)
}

pub fn c17(ctx: &Ctx, rep: &mut Report) {
    let mut idx = ctx.only.unwrap_or(0);
    loop {
        if ctx.only.is_none() && (ctx.expired() || idx >= ctx.max_cases) {
            break;
        }
        ctx.begin(idx);
        let mut rng = Rng::derive(&[ctx.seed, ctx.shard, idx, 17]);
        if idx % 200 == 7 && !ctx.miri {
            // an invalid separator on a line beyond 2^16 / 2^32 of a virtual file, reached with seek()
            rep.evaluations += 1;
            match guarded(|| crate::m_hist::huge_line_error_case(&mut rng)) {
                Err(c) => caught_violation(rep, &c, "reading a virtual file", ctx.replay_json(idx)),
                Ok(Err(m)) => rep.violation("huge-line-case", m, ctx.replay_json(idx)),
                Ok(Ok((defect, e))) => {
                    let want = RErr::InvalidSep {
                        line: defect * 4 + 3,
                        found: b'-',
                        id: format!("{:016}", defect).into_bytes(),
                    };
                    rep.count("errors_checked_beyond_line_65536");
                    if !err_matches(&e.obs, &want, true) {
                        rep.violation(
                            "fastq-error-fields-huge-line",
                            format!("reported {:?}, the true error is {:?}", e.obs, want),
                            ctx.replay_json(idx),
                        );
                    } else if let Err(m) = check_message(&e) {
                        rep.violation("message-text", m, ctx.replay_json(idx));
                    }
                }
            }
            if ctx.only.is_some() {
                break;
            }
            idx += 1;
            continue;
        }
        let fmt = if idx % 3 == 0 { Fmt::Fasta } else { Fmt::Fastq };
        let opts = GenOpts {
            max_recs: if ctx.miri { 4 } else { 30 },
            tag: ctx.shard,
            giant: 1,
            ..GenOpts::default()
        };
        let (bytes, defect): (Vec<u8>, &str) = match fmt {
            Fmt::Fastq => {
                let mut abs = gen::gen_abs(&mut rng, fmt, &opts);
                if abs.recs.is_empty() {
                    abs = gen::gen_abs(&mut rng, fmt, &GenOpts { max_recs: 3, ..opts.clone() });
                }
                if abs.recs.is_empty() {
                    idx += 1;
                    continue;
                }
                let mut ro = gen::gen_render_opts(&mut rng, fmt);
                if matches!(ro.ends, gen::LineEnd::Mixed(_)) {
                    ro.ends = gen::LineEnd::Lf;
                }
                let at = rng.below(abs.recs.len());
                if !ctx.miri && rng.chance(1, 25) {
                    // a very long id in front of the defect: the error must carry all of it
                    let l = *rng.pick(&[255usize, 256, 1000, 1023, 1024, 1025, 2048, 4097, 65_535, 65_536, 70_000]);
                    let mut h: Vec<u8> = format!("r{}_{}_", ctx.shard, at).into_bytes();
                    while h.len() < l {
                        h.push(*rng.pick(b"abcXYZ019_-.:|"));
                    }
                    if rng.chance(1, 2) {
                        h.extend_from_slice(b" some description");
                    }
                    abs.recs[at].head = h;
                    rep.count("defects_behind_ids_of_255_to_70000_bytes");
                }
                if rng.chance(1, 30) {
                    // a carriage return that is content of the header, not part of a terminator: the id is
                    // everything up to the first space, CR included
                    let shapes: [&[u8]; 6] = [b"a\r b", b"\r x", b"a\rb c", b"a \r d", b"\r\r z", b"q\r"];
                    let mut h: Vec<u8> = format!("r{}_{}", ctx.shard, at).into_bytes();
                    h.extend_from_slice(shapes[rng.below(5)]);
                    abs.recs[at].head = h;
                    rep.count("defects_behind_headers_with_inner_cr");
                }
                plant_fastq(&mut rng, &abs, &ro, at)
            }
            Fmt::Fasta => {
                // invalid start after 0..40 blank lines (LF / CRLF / lone-CR-free mixtures)
                let nb = rng.skewed(40);
                let mut b = vec![];
                for _ in 0..nb {
                    if rng.chance(1, 3) {
                        b.extend_from_slice(b"\r\n");
                    } else {
                        b.push(b'\n');
                    }
                }
                let first = *rng.pick(b"AX@+; \r\x00\xff");
                b.push(first);
                if first == b'\r' {
                    b.push(b'x'); // a lone "\r" line would be blank
                }
                b.extend_from_slice(b"id\nACGT\n>r\nAC\n");
                (b, "fasta-invalid-start")
            }
        };
        let r = fmt.reference(&bytes);
        let extents: Vec<usize> = r.recs.iter().map(|x| x.extent()).collect();
        let input = Rc::new(bytes);
        let ncfg = if ctx.miri { 2 } else { 4 };
        for _ in 0..ncfg {
            let mut cfg = gen::gen_config(&mut rng, input.len(), &extents);
            gen::tame(&mut cfg, input.len());
            rep.evaluations += 1;
            let max_calls = match fmt {
                Fmt::Fasta => r.recs.len() + 6,
                Fmt::Fastq => max_fastq_calls(&input),
            };
            let t = transcript(fmt, &input, &cfg, Via::Next, max_calls, false);
            let replay = || {
                let mut j = ctx.replay_json(idx);
                j["input"] = json!(show(&input));
                j["input_hex"] = json!(gen::hex_limited(&input));
                j["config"] = json!(cfg.describe());
                j["defect"] = json!(defect);
                j
            };
            if let Some(c) = &t.caught {
                caught_violation(rep, c, "reading", replay());
                continue;
            }
            let res = match fmt {
                Fmt::Fasta => check_fasta_transcript(&r, &t.obs, false, true).map(|_| {
                    t.obs.iter().find_map(|o| match o {
                        Obs::Err(e) => Some((r.err.clone(), e.clone())),
                        _ => None,
                    })
                }),
                Fmt::Fastq => check_fastq_transcript(&input, &t.obs, false, true),
            };
            match res {
                Err((sig, what)) => {
                    // only the error-field part belongs to this property
                    if sig == "wrong-error" {
                        rep.violation(&format!("{}-error-fields", fmt.name()), what, replay());
                    } else {
                        rep.count("other_property_deviation");
                    }
                }
                Ok(Some((_, e))) => {
                    rep.map("error_kinds", e.obs.kind_name());
                    rep.map("defect", defect);
                    if let Err(m) = check_message(&e) {
                        rep.violation("message-text", m, replay());
                    }
                    let where_ = if t.grow_calls > 0 {
                        "after_growth"
                    } else if input.len() > cfg.cap {
                        "across_refill"
                    } else {
                        "inside_buffer"
                    };
                    rep.map("defect_location", &format!("{}:{}", e.obs.kind_name(), where_));
                    if let ErrObs::InvalidStart { line, .. } = e.obs {
                        if fmt == Fmt::Fasta && (line as usize) > cfg.cap {
                            rep.count("fasta_blank_prefix_exceeds_capacity");
                        }
                    }
                    rep.nontrivial.insert(case_sig(&input, &cfg, 17));
                    if rep.want_sample() {
                        rep.sample(json!({"input": show(&input), "config": cfg.describe(),
                            "defect": defect, "error": format!("{:?}", e.obs), "message": e.display}));
                    }
                }
                Ok(None) => {
                    rep.count("defect_not_an_error");
                }
            }
            // --- the same reading with one transient source error: the failing call is retried and the
            // format error that finally arrives must carry the same fields ("every format error")
            let expected = t.obs.iter().find_map(|o| match o {
                Obs::Err(e) if e.obs.is_parse() => Some(e.obs.clone()),
                _ => None,
            });
            if let (Some(expected), true) = (expected, t.read_calls > 0) {
                let k = 1 + rng.below(t.read_calls);
                let kind = *rng.pick(&crate::src::ERR_KINDS);
                let fault = crate::src::Fault { at_call: k, on_seek: false, kind, repeat: 1 };
                let got = guarded(|| {
                    let mut rig = crate::seqmon::make_rig(fmt, input.clone(), &cfg, vec![fault]);
                    let mut io_seen = 0usize;
                    for _ in 0..max_calls + 3 {
                        rig.begin_op();
                        match rig.r().next() {
                            Obs::Err(e) if e.obs.is_parse() => return (Some(e), io_seen),
                            Obs::Err(e) => {
                                if matches!(e.obs, ErrObs::Io { .. }) {
                                    io_seen += 1;
                                }
                            }
                            Obs::End => return (None, io_seen),
                            Obs::Rec(_) => {}
                        }
                    }
                    (None, io_seen)
                });
                rep.evaluations += 1;
                let mut j = replay();
                j["transient_fault_at_read_call"] = json!(k);
                j["fault_kind"] = json!(format!("{:?}", kind));
                match got {
                    Err(c) => caught_violation(rep, &c, "reading with a retried source error", j),
                    Ok((_, 0)) => rep.count("transient_fault_not_reached"),
                    Ok((Some(e), _)) => {
                        rep.count("format_errors_after_retried_source_error");
                        if e.obs != expected {
                            rep.violation(
                                &format!("{}-error-fields-after-retried-io-error", fmt.name()),
                                format!("after a retried source error the reader reports {:?}; without the fault it reports {:?}", e.obs, expected),
                                j,
                            );
                        } else if let Err(m) = check_message(&e) {
                            rep.violation("message-text", m, j);
                        }
                    }
                    Ok((None, _)) => {
                        // after a source error the readers may also report the end of input (C06 allows it);
                        // this property speaks about the format errors that are reported
                        rep.count("retries_ending_without_format_error");
                    }
                }
            }
            // the same error through record-set reads (plain and exact-count): a set read may
            // report the error ahead of the records before it, but its fields must be the same
            if !r.ambiguous() && r.has_err() {
                for n in [None, Some(1usize), Some(2), Some(3), Some(5)] {
                    rep.evaluations += 1;
                    let mut rig = make_rig(fmt, input.clone(), &cfg, vec![]);
                    let mut set = AnySet::new(fmt);
                    let mut found: Option<ErrFull> = None;
                    let res = guarded(|| {
                        for _ in 0..max_calls {
                            rig.begin_op();
                            match rig.r().read_set(&mut set, n) {
                                SetObs::Ok => {}
                                SetObs::Err(e) => {
                                    found = Some(e);
                                    break;
                                }
                                SetObs::End => break,
                            }
                        }
                    });
                    let mut j = replay();
                    j["set_read_n"] = json!(n);
                    if let Err(c) = res {
                        caught_violation(rep, &c, "set reading", j);
                        continue;
                    }
                    match found {
                        Some(e) => {
                            rep.map("set_read_errors", &format!("{}:{}", e.obs.kind_name(), n.map_or("plain".to_string(), |x| format!("exact{}", x))));
                            if !r.err.iter().any(|x| err_matches(&e.obs, x, true)) {
                                rep.violation(
                                    &format!("{}-error-fields-set-read", fmt.name()),
                                    format!("set read (n = {:?}) reports {:?}, the true error is one of {:?}", n, e.obs, r.err),
                                    j,
                                );
                            } else if let Err(m) = check_message(&e) {
                                rep.violation("message-text", m, j);
                            }
                        }
                        None => {
                            if !r.err_or_end {
                                rep.count("set_read_lost_error_other_property");
                            }
                        }
                    }
                }
            }
        }
        if ctx.only.is_some() {
            break;
        }
        idx += 1;
    }
}
