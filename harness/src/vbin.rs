//! `vbin`: a minimal compact, NOT self-describing serde format (in the manner of bincode), written
//! for the C19 monitor because no such format crate is available offline. Self-describing formats
//! (JSON, CBOR) forgive things a compact format does not: fields skipped on one side only
//! (`skip_serializing_if`), a field order that differs between a hand-written `Serialize` and
//! `Deserialize`, reliance on `deserialize_any`. Layout: integers little-endian fixed width,
//! `usize`/lengths as u64, sequences / maps / strings / byte strings length-prefixed, tuples and structs
//! as their fields in order without names, options as a tag byte, enum variants as u32 index.

use serde::de::{self, DeserializeSeed, EnumAccess, IntoDeserializer, MapAccess, SeqAccess, VariantAccess, Visitor};
use serde::ser::{self, Serialize};
use std::fmt;

#[derive(Debug, Clone, PartialEq, Eq)]
pub struct Error(pub String);

impl fmt::Display for Error {
    fn fmt(&self, f: &mut fmt::Formatter) -> fmt::Result {
        write!(f, "vbin: {}", self.0)
    }
}
impl std::error::Error for Error {}
impl ser::Error for Error {
    fn custom<T: fmt::Display>(msg: T) -> Self {
        Error(msg.to_string())
    }
}
impl de::Error for Error {
    fn custom<T: fmt::Display>(msg: T) -> Self {
        Error(msg.to_string())
    }
}

/// How structs travel. `Positional`: the fields in order, nothing else (bincode, postcard).
/// `IndexKeys`: a map keyed by the field's index as an integer (packed CBOR does this).
/// `ByteKeys`: a map keyed by the field name as a byte string. A derived `Deserialize` accepts all of
/// them; a hand-written field visitor that only implements `visit_str` does not.
#[derive(Clone, Copy, Debug, PartialEq, Eq)]
pub enum StructMode {
    Positional,
    IndexKeys,
    ByteKeys,
}

pub fn to_vec<T: Serialize>(v: &T) -> Result<Vec<u8>, Error> {
    to_vec_mode(v, StructMode::Positional)
}

pub fn to_vec_mode<T: Serialize>(v: &T, mode: StructMode) -> Result<Vec<u8>, Error> {
    let mut s = Ser { out: Vec::new(), mode };
    v.serialize(&mut s)?;
    Ok(s.out)
}

pub fn from_slice<'a, T: de::Deserialize<'a>>(b: &'a [u8]) -> Result<T, Error> {
    from_slice_mode(b, StructMode::Positional)
}

pub fn from_slice_mode<'a, T: de::Deserialize<'a>>(b: &'a [u8], mode: StructMode) -> Result<T, Error> {
    let mut d = De { inp: b, mode };
    let v = T::deserialize(&mut d)?;
    if !d.inp.is_empty() {
        return Err(Error(format!("{} trailing bytes", d.inp.len())));
    }
    Ok(v)
}

/// `Deserialize::deserialize_in_place`: the value is written into an existing object (which has a
/// history of its own) instead of being built from nothing
pub fn from_slice_in_place<'a, T: de::Deserialize<'a>>(b: &'a [u8], mode: StructMode, place: &mut T) -> Result<(), Error> {
    let mut d = De { inp: b, mode };
    de::Deserialize::deserialize_in_place(&mut d, place)?;
    if !d.inp.is_empty() {
        return Err(Error(format!("{} trailing bytes", d.inp.len())));
    }
    Ok(())
}

pub struct Ser {
    out: Vec<u8>,
    mode: StructMode,
}

pub struct StructSer<'a> {
    ser: &'a mut Ser,
    idx: u32,
}

impl Ser {
    fn len(&mut self, n: usize) {
        self.out.extend_from_slice(&(n as u64).to_le_bytes());
    }
}

macro_rules! ser_num {
    ($name:ident, $t:ty) => {
        fn $name(self, v: $t) -> Result<(), Error> {
            self.out.extend_from_slice(&v.to_le_bytes());
            Ok(())
        }
    };
}

impl<'a> ser::Serializer for &'a mut Ser {
    type Ok = ();
    type Error = Error;
    type SerializeSeq = Self;
    type SerializeTuple = Self;
    type SerializeTupleStruct = Self;
    type SerializeTupleVariant = Self;
    type SerializeMap = Self;
    type SerializeStruct = StructSer<'a>;
    type SerializeStructVariant = Self;

    fn serialize_bool(self, v: bool) -> Result<(), Error> {
        self.out.push(v as u8);
        Ok(())
    }
    ser_num!(serialize_i8, i8);
    ser_num!(serialize_i16, i16);
    ser_num!(serialize_i32, i32);
    ser_num!(serialize_i64, i64);
    ser_num!(serialize_u8, u8);
    ser_num!(serialize_u16, u16);
    ser_num!(serialize_u32, u32);
    ser_num!(serialize_u64, u64);
    ser_num!(serialize_f32, f32);
    ser_num!(serialize_f64, f64);
    fn serialize_char(self, v: char) -> Result<(), Error> {
        self.serialize_u32(v as u32)
    }
    fn serialize_str(self, v: &str) -> Result<(), Error> {
        self.serialize_bytes(v.as_bytes())
    }
    fn serialize_bytes(self, v: &[u8]) -> Result<(), Error> {
        self.len(v.len());
        self.out.extend_from_slice(v);
        Ok(())
    }
    fn serialize_none(self) -> Result<(), Error> {
        self.out.push(0);
        Ok(())
    }
    fn serialize_some<T: ?Sized + Serialize>(self, value: &T) -> Result<(), Error> {
        self.out.push(1);
        value.serialize(self)
    }
    fn serialize_unit(self) -> Result<(), Error> {
        Ok(())
    }
    fn serialize_unit_struct(self, _name: &'static str) -> Result<(), Error> {
        Ok(())
    }
    fn serialize_unit_variant(self, _name: &'static str, idx: u32, _variant: &'static str) -> Result<(), Error> {
        self.serialize_u32(idx)
    }
    fn serialize_newtype_struct<T: ?Sized + Serialize>(self, _name: &'static str, value: &T) -> Result<(), Error> {
        value.serialize(self)
    }
    fn serialize_newtype_variant<T: ?Sized + Serialize>(
        self,
        _name: &'static str,
        idx: u32,
        _variant: &'static str,
        value: &T,
    ) -> Result<(), Error> {
        self.out.extend_from_slice(&idx.to_le_bytes());
        value.serialize(self)
    }
    fn serialize_seq(self, len: Option<usize>) -> Result<Self, Error> {
        match len {
            Some(n) => {
                self.len(n);
                Ok(self)
            }
            None => Err(Error("sequence of unknown length".into())),
        }
    }
    fn serialize_tuple(self, _len: usize) -> Result<Self, Error> {
        Ok(self)
    }
    fn serialize_tuple_struct(self, _name: &'static str, _len: usize) -> Result<Self, Error> {
        Ok(self)
    }
    fn serialize_tuple_variant(self, _name: &'static str, idx: u32, _variant: &'static str, _len: usize) -> Result<Self, Error> {
        self.out.extend_from_slice(&idx.to_le_bytes());
        Ok(self)
    }
    fn serialize_map(self, len: Option<usize>) -> Result<Self, Error> {
        match len {
            Some(n) => {
                self.len(n);
                Ok(self)
            }
            None => Err(Error("map of unknown length".into())),
        }
    }
    fn serialize_struct(self, _name: &'static str, len: usize) -> Result<StructSer<'a>, Error> {
        if self.mode != StructMode::Positional {
            self.len(len);
        }
        Ok(StructSer { ser: self, idx: 0 })
    }
    fn serialize_struct_variant(self, _name: &'static str, idx: u32, _variant: &'static str, _len: usize) -> Result<Self, Error> {
        self.out.extend_from_slice(&idx.to_le_bytes());
        Ok(self)
    }
    fn is_human_readable(&self) -> bool {
        false
    }
}

impl<'a> ser::SerializeSeq for &'a mut Ser {
    type Ok = ();
    type Error = Error;
    fn serialize_element<T: ?Sized + Serialize>(&mut self, v: &T) -> Result<(), Error> {
        v.serialize(&mut **self)
    }
    fn end(self) -> Result<(), Error> {
        Ok(())
    }
}
impl<'a> ser::SerializeTuple for &'a mut Ser {
    type Ok = ();
    type Error = Error;
    fn serialize_element<T: ?Sized + Serialize>(&mut self, v: &T) -> Result<(), Error> {
        v.serialize(&mut **self)
    }
    fn end(self) -> Result<(), Error> {
        Ok(())
    }
}
impl<'a> ser::SerializeTupleStruct for &'a mut Ser {
    type Ok = ();
    type Error = Error;
    fn serialize_field<T: ?Sized + Serialize>(&mut self, v: &T) -> Result<(), Error> {
        v.serialize(&mut **self)
    }
    fn end(self) -> Result<(), Error> {
        Ok(())
    }
}
impl<'a> ser::SerializeTupleVariant for &'a mut Ser {
    type Ok = ();
    type Error = Error;
    fn serialize_field<T: ?Sized + Serialize>(&mut self, v: &T) -> Result<(), Error> {
        v.serialize(&mut **self)
    }
    fn end(self) -> Result<(), Error> {
        Ok(())
    }
}
impl<'a> ser::SerializeMap for &'a mut Ser {
    type Ok = ();
    type Error = Error;
    fn serialize_key<T: ?Sized + Serialize>(&mut self, k: &T) -> Result<(), Error> {
        k.serialize(&mut **self)
    }
    fn serialize_value<T: ?Sized + Serialize>(&mut self, v: &T) -> Result<(), Error> {
        v.serialize(&mut **self)
    }
    fn end(self) -> Result<(), Error> {
        Ok(())
    }
}
impl<'a> ser::SerializeStruct for StructSer<'a> {
    type Ok = ();
    type Error = Error;
    fn serialize_field<T: ?Sized + Serialize>(&mut self, key: &'static str, v: &T) -> Result<(), Error> {
        match self.ser.mode {
            StructMode::Positional => {}
            StructMode::IndexKeys => self.ser.out.extend_from_slice(&self.idx.to_le_bytes()),
            StructMode::ByteKeys => {
                self.ser.len(key.len());
                self.ser.out.extend_from_slice(key.as_bytes());
            }
        }
        self.idx += 1;
        v.serialize(&mut *self.ser)
    }
    fn skip_field(&mut self, _key: &'static str) -> Result<(), Error> {
        // the index counts declared fields, skipped ones included
        self.idx += 1;
        Ok(())
    }
    fn end(self) -> Result<(), Error> {
        Ok(())
    }
}
impl<'a> ser::SerializeStructVariant for &'a mut Ser {
    type Ok = ();
    type Error = Error;
    fn serialize_field<T: ?Sized + Serialize>(&mut self, _key: &'static str, v: &T) -> Result<(), Error> {
        v.serialize(&mut **self)
    }
    fn end(self) -> Result<(), Error> {
        Ok(())
    }
}

// ---------------------------------------------------------------------------

pub struct De<'de> {
    inp: &'de [u8],
    mode: StructMode,
}

/// field key of the keyed struct modes
enum Key<'de> {
    Index(u64),
    Bytes(&'de [u8]),
}

impl<'de> de::Deserializer<'de> for Key<'de> {
    type Error = Error;
    fn deserialize_any<V: Visitor<'de>>(self, visitor: V) -> Result<V::Value, Error> {
        match self {
            Key::Index(i) => visitor.visit_u64(i),
            Key::Bytes(b) => visitor.visit_borrowed_bytes(b),
        }
    }
    serde::forward_to_deserialize_any! {
        bool i8 i16 i32 i64 i128 u8 u16 u32 u64 u128 f32 f64 char str string bytes byte_buf option unit
        unit_struct newtype_struct seq tuple tuple_struct map struct enum identifier ignored_any
    }
}

struct StructMap<'a, 'de> {
    de: &'a mut De<'de>,
    left: usize,
}

impl<'a, 'de> MapAccess<'de> for StructMap<'a, 'de> {
    type Error = Error;
    fn next_key_seed<K: DeserializeSeed<'de>>(&mut self, seed: K) -> Result<Option<K::Value>, Error> {
        if self.left == 0 {
            return Ok(None);
        }
        self.left -= 1;
        let key = match self.de.mode {
            StructMode::IndexKeys => {
                let b = self.de.take(4)?;
                let mut a = [0u8; 4];
                a.copy_from_slice(b);
                Key::Index(u32::from_le_bytes(a) as u64)
            }
            _ => {
                let n = self.de.len()?;
                Key::Bytes(self.de.take(n)?)
            }
        };
        seed.deserialize(key).map(Some)
    }
    fn next_value_seed<V: DeserializeSeed<'de>>(&mut self, seed: V) -> Result<V::Value, Error> {
        seed.deserialize(&mut *self.de)
    }
    fn size_hint(&self) -> Option<usize> {
        Some(self.left)
    }
}

impl<'de> De<'de> {
    fn take(&mut self, n: usize) -> Result<&'de [u8], Error> {
        if self.inp.len() < n {
            return Err(Error(format!("unexpected end of data: need {} bytes, have {}", n, self.inp.len())));
        }
        let (a, b) = self.inp.split_at(n);
        self.inp = b;
        Ok(a)
    }
    fn len(&mut self) -> Result<usize, Error> {
        let b = self.take(8)?;
        let mut a = [0u8; 8];
        a.copy_from_slice(b);
        let n = u64::from_le_bytes(a);
        if n > self.inp.len() as u64 {
            // every element of any type used here occupies at least one byte, except units
            // (not used): a length larger than the rest of the data is corrupt
            return Err(Error(format!("length {} exceeds the remaining {} bytes", n, self.inp.len())));
        }
        Ok(n as usize)
    }
}

macro_rules! de_num {
    ($name:ident, $visit:ident, $t:ty, $n:expr) => {
        fn $name<V: Visitor<'de>>(self, visitor: V) -> Result<V::Value, Error> {
            let b = self.take($n)?;
            let mut a = [0u8; $n];
            a.copy_from_slice(b);
            visitor.$visit(<$t>::from_le_bytes(a))
        }
    };
}

impl<'de, 'a> de::Deserializer<'de> for &'a mut De<'de> {
    type Error = Error;

    fn deserialize_any<V: Visitor<'de>>(self, _visitor: V) -> Result<V::Value, Error> {
        Err(Error("the format is not self-describing (deserialize_any)".into()))
    }
    fn deserialize_bool<V: Visitor<'de>>(self, visitor: V) -> Result<V::Value, Error> {
        match self.take(1)?[0] {
            0 => visitor.visit_bool(false),
            1 => visitor.visit_bool(true),
            x => Err(Error(format!("invalid bool {}", x))),
        }
    }
    de_num!(deserialize_i8, visit_i8, i8, 1);
    de_num!(deserialize_i16, visit_i16, i16, 2);
    de_num!(deserialize_i32, visit_i32, i32, 4);
    de_num!(deserialize_i64, visit_i64, i64, 8);
    de_num!(deserialize_u8, visit_u8, u8, 1);
    de_num!(deserialize_u16, visit_u16, u16, 2);
    de_num!(deserialize_u32, visit_u32, u32, 4);
    de_num!(deserialize_u64, visit_u64, u64, 8);
    de_num!(deserialize_f32, visit_f32, f32, 4);
    de_num!(deserialize_f64, visit_f64, f64, 8);
    fn deserialize_char<V: Visitor<'de>>(self, visitor: V) -> Result<V::Value, Error> {
        let b = self.take(4)?;
        let mut a = [0u8; 4];
        a.copy_from_slice(b);
        match char::from_u32(u32::from_le_bytes(a)) {
            Some(c) => visitor.visit_char(c),
            None => Err(Error("invalid char".into())),
        }
    }
    fn deserialize_str<V: Visitor<'de>>(self, visitor: V) -> Result<V::Value, Error> {
        let n = self.len()?;
        let b = self.take(n)?;
        match std::str::from_utf8(b) {
            Ok(s) => visitor.visit_borrowed_str(s),
            Err(_) => Err(Error("invalid utf-8 in string".into())),
        }
    }
    fn deserialize_string<V: Visitor<'de>>(self, visitor: V) -> Result<V::Value, Error> {
        self.deserialize_str(visitor)
    }
    fn deserialize_bytes<V: Visitor<'de>>(self, visitor: V) -> Result<V::Value, Error> {
        let n = self.len()?;
        let b = self.take(n)?;
        visitor.visit_borrowed_bytes(b)
    }
    fn deserialize_byte_buf<V: Visitor<'de>>(self, visitor: V) -> Result<V::Value, Error> {
        self.deserialize_bytes(visitor)
    }
    fn deserialize_option<V: Visitor<'de>>(self, visitor: V) -> Result<V::Value, Error> {
        match self.take(1)?[0] {
            0 => visitor.visit_none(),
            1 => visitor.visit_some(self),
            x => Err(Error(format!("invalid option tag {}", x))),
        }
    }
    fn deserialize_unit<V: Visitor<'de>>(self, visitor: V) -> Result<V::Value, Error> {
        visitor.visit_unit()
    }
    fn deserialize_unit_struct<V: Visitor<'de>>(self, _name: &'static str, visitor: V) -> Result<V::Value, Error> {
        visitor.visit_unit()
    }
    fn deserialize_newtype_struct<V: Visitor<'de>>(self, _name: &'static str, visitor: V) -> Result<V::Value, Error> {
        visitor.visit_newtype_struct(self)
    }
    fn deserialize_seq<V: Visitor<'de>>(self, visitor: V) -> Result<V::Value, Error> {
        let n = self.len()?;
        visitor.visit_seq(Counted { de: self, left: n })
    }
    fn deserialize_tuple<V: Visitor<'de>>(self, len: usize, visitor: V) -> Result<V::Value, Error> {
        visitor.visit_seq(Counted { de: self, left: len })
    }
    fn deserialize_tuple_struct<V: Visitor<'de>>(self, _name: &'static str, len: usize, visitor: V) -> Result<V::Value, Error> {
        visitor.visit_seq(Counted { de: self, left: len })
    }
    fn deserialize_map<V: Visitor<'de>>(self, visitor: V) -> Result<V::Value, Error> {
        let n = self.len()?;
        visitor.visit_map(Counted { de: self, left: n })
    }
    fn deserialize_struct<V: Visitor<'de>>(
        self,
        _name: &'static str,
        fields: &'static [&'static str],
        visitor: V,
    ) -> Result<V::Value, Error> {
        if self.mode == StructMode::Positional {
            visitor.visit_seq(Counted {
                de: self,
                left: fields.len(),
            })
        } else {
            let n = self.len()?;
            visitor.visit_map(StructMap { de: self, left: n })
        }
    }
    fn deserialize_enum<V: Visitor<'de>>(
        self,
        _name: &'static str,
        _variants: &'static [&'static str],
        visitor: V,
    ) -> Result<V::Value, Error> {
        visitor.visit_enum(self)
    }
    fn deserialize_identifier<V: Visitor<'de>>(self, _visitor: V) -> Result<V::Value, Error> {
        Err(Error("the format has no field identifiers".into()))
    }
    fn deserialize_ignored_any<V: Visitor<'de>>(self, _visitor: V) -> Result<V::Value, Error> {
        Err(Error("the format is not self-describing (ignored_any)".into()))
    }
    fn is_human_readable(&self) -> bool {
        false
    }
}

struct Counted<'a, 'de> {
    de: &'a mut De<'de>,
    left: usize,
}

impl<'a, 'de> SeqAccess<'de> for Counted<'a, 'de> {
    type Error = Error;
    fn next_element_seed<T: DeserializeSeed<'de>>(&mut self, seed: T) -> Result<Option<T::Value>, Error> {
        if self.left == 0 {
            return Ok(None);
        }
        self.left -= 1;
        seed.deserialize(&mut *self.de).map(Some)
    }
    fn size_hint(&self) -> Option<usize> {
        Some(self.left)
    }
}

impl<'a, 'de> MapAccess<'de> for Counted<'a, 'de> {
    type Error = Error;
    fn next_key_seed<K: DeserializeSeed<'de>>(&mut self, seed: K) -> Result<Option<K::Value>, Error> {
        if self.left == 0 {
            return Ok(None);
        }
        self.left -= 1;
        seed.deserialize(&mut *self.de).map(Some)
    }
    fn next_value_seed<V: DeserializeSeed<'de>>(&mut self, seed: V) -> Result<V::Value, Error> {
        seed.deserialize(&mut *self.de)
    }
    fn size_hint(&self) -> Option<usize> {
        Some(self.left)
    }
}

impl<'a, 'de> EnumAccess<'de> for &'a mut De<'de> {
    type Error = Error;
    type Variant = Self;
    fn variant_seed<V: DeserializeSeed<'de>>(self, seed: V) -> Result<(V::Value, Self), Error> {
        let b = self.take(4)?;
        let mut a = [0u8; 4];
        a.copy_from_slice(b);
        let idx = u32::from_le_bytes(a);
        let v = seed.deserialize(idx.into_deserializer())?;
        Ok((v, self))
    }
}

impl<'a, 'de> VariantAccess<'de> for &'a mut De<'de> {
    type Error = Error;
    fn unit_variant(self) -> Result<(), Error> {
        Ok(())
    }
    fn newtype_variant_seed<T: DeserializeSeed<'de>>(self, seed: T) -> Result<T::Value, Error> {
        seed.deserialize(self)
    }
    fn tuple_variant<V: Visitor<'de>>(self, len: usize, visitor: V) -> Result<V::Value, Error> {
        de::Deserializer::deserialize_tuple(self, len, visitor)
    }
    fn struct_variant<V: Visitor<'de>>(self, fields: &'static [&'static str], visitor: V) -> Result<V::Value, Error> {
        de::Deserializer::deserialize_tuple(self, fields.len(), visitor)
    }
}

#[cfg(test)]
mod tests {
    use super::*;
    use serde::{Deserialize, Serialize};

    #[derive(Serialize, Deserialize, Debug, PartialEq, Clone)]
    enum E {
        A,
        B(u8),
        C { x: u16, y: Vec<u8> },
    }

    #[derive(Serialize, Deserialize, Debug, PartialEq, Clone)]
    struct S {
        a: usize,
        b: Vec<u8>,
        c: (usize, usize),
        d: Option<String>,
        e: Vec<Vec<usize>>,
        f: E,
        g: bool,
        h: std::collections::BTreeMap<String, i64>,
    }

    #[test]
    fn roundtrip() {
        let mut h = std::collections::BTreeMap::new();
        h.insert("k".to_string(), -5i64);
        for f in [E::A, E::B(7), E::C { x: 9, y: vec![1, 2] }] {
            let s = S {
                a: 123456789012,
                b: vec![0, 255, 10, 13],
                c: (1, 2),
                d: Some("héllo".into()),
                e: vec![vec![], vec![1, 2, 3]],
                f,
                g: true,
                h: h.clone(),
            };
            let bytes = to_vec(&s).unwrap();
            let back: S = from_slice(&bytes).unwrap();
            assert_eq!(s, back);
            // truncated data is an error, never a panic
            for k in 0..bytes.len() {
                assert!(from_slice::<S>(&bytes[..k]).is_err());
            }
        }
    }

    #[test]
    fn keyed_struct_modes_roundtrip() {
        let s = S {
            a: 7,
            b: vec![1, 2, 3],
            c: (4, 5),
            d: None,
            e: vec![vec![9]],
            f: E::C { x: 1, y: vec![] },
            g: false,
            h: Default::default(),
        };
        for mode in [StructMode::IndexKeys, StructMode::ByteKeys] {
            let bytes = to_vec_mode(&s, mode).unwrap();
            let back: S = from_slice_mode(&bytes, mode).unwrap();
            assert_eq!(s, back);
        }
    }

    #[derive(Serialize, Deserialize, Debug, PartialEq)]
    struct Skippy {
        #[serde(skip_serializing_if = "Vec::is_empty", default)]
        v: Vec<u8>,
        n: u32,
    }

    #[test]
    fn one_sided_skip_is_detected() {
        // the kind of slip the format exists to expose: fine in JSON, broken in a compact format
        let s = Skippy { v: vec![], n: 7 };
        let j = serde_json::to_string(&s).unwrap();
        assert_eq!(serde_json::from_str::<Skippy>(&j).unwrap(), s);
        let b = to_vec(&s).unwrap();
        assert!(from_slice::<Skippy>(&b).map(|x| x != s).unwrap_or(true));
    }
}
