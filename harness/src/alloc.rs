//! Counting global allocator (C16, C18). Stores no addresses, so it hides
//! nothing from leak checkers; counting is off unless armed.

use std::alloc::{GlobalAlloc, Layout, System};
use std::cell::Cell;
use std::sync::atomic::{AtomicBool, AtomicI64, AtomicU64, Ordering};

pub struct Counting;

thread_local! {
    static ARMED: Cell<bool> = const { Cell::new(false) };
    static T_ALLOCS: Cell<u64> = const { Cell::new(0) };
    static T_REALLOCS: Cell<u64> = const { Cell::new(0) };
    static T_DEALLOCS: Cell<u64> = const { Cell::new(0) };
}

static GLOBAL_ON: AtomicBool = AtomicBool::new(false);
static LIVE: AtomicI64 = AtomicI64::new(0);
static PEAK: AtomicI64 = AtomicI64::new(0);
static G_ALLOCS: AtomicU64 = AtomicU64::new(0);

#[inline]
fn live_add(n: i64) {
    let l = LIVE.fetch_add(n, Ordering::Relaxed) + n;
    if n > 0 {
        PEAK.fetch_max(l, Ordering::Relaxed);
    }
}

unsafe impl GlobalAlloc for Counting {
    unsafe fn alloc(&self, l: Layout) -> *mut u8 {
        let _ = ARMED.try_with(|a| {
            if a.get() {
                let _ = T_ALLOCS.try_with(|c| c.set(c.get() + 1));
            }
        });
        if GLOBAL_ON.load(Ordering::Relaxed) {
            live_add(l.size() as i64);
            G_ALLOCS.fetch_add(1, Ordering::Relaxed);
        }
        System.alloc(l)
    }
    unsafe fn dealloc(&self, p: *mut u8, l: Layout) {
        let _ = ARMED.try_with(|a| {
            if a.get() {
                let _ = T_DEALLOCS.try_with(|c| c.set(c.get() + 1));
            }
        });
        if GLOBAL_ON.load(Ordering::Relaxed) {
            live_add(-(l.size() as i64));
        }
        System.dealloc(p, l)
    }
    unsafe fn realloc(&self, p: *mut u8, l: Layout, new: usize) -> *mut u8 {
        let _ = ARMED.try_with(|a| {
            if a.get() {
                let _ = T_REALLOCS.try_with(|c| c.set(c.get() + 1));
            }
        });
        if GLOBAL_ON.load(Ordering::Relaxed) {
            live_add(new as i64 - l.size() as i64);
            G_ALLOCS.fetch_add(1, Ordering::Relaxed);
        }
        System.realloc(p, l, new)
    }
}

/// counts of the current thread while armed: (alloc, realloc, dealloc)
pub fn arm() {
    T_ALLOCS.with(|c| c.set(0));
    T_REALLOCS.with(|c| c.set(0));
    T_DEALLOCS.with(|c| c.set(0));
    ARMED.with(|a| a.set(true));
}

pub fn disarm() -> (u64, u64, u64) {
    ARMED.with(|a| a.set(false));
    (
        T_ALLOCS.with(|c| c.get()),
        T_REALLOCS.with(|c| c.get()),
        T_DEALLOCS.with(|c| c.get()),
    )
}

/// global mode: all threads, live and peak bytes (relative to the moment it was switched on)
pub fn global_start() {
    LIVE.store(0, Ordering::SeqCst);
    PEAK.store(0, Ordering::SeqCst);
    G_ALLOCS.store(0, Ordering::SeqCst);
    GLOBAL_ON.store(true, Ordering::SeqCst);
}

pub fn global_stop() -> (i64, i64, u64) {
    GLOBAL_ON.store(false, Ordering::SeqCst);
    (
        LIVE.load(Ordering::SeqCst),
        PEAK.load(Ordering::SeqCst),
        G_ALLOCS.load(Ordering::SeqCst),
    )
}
