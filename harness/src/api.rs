//! One interface over the two readers of the crate, returning normalised
//! observations (`Obs`) that can be compared with the reference model.

use crate::refmodel::{ErrObs, Fmt, RRec};
use crate::src::{RecPolicy, Src};
use seq_io::fasta::{self, Record as FaRecord};
use seq_io::fastq::{self, Record as FqRecord};
use seq_io::verif_hooks::Snapshot;

#[derive(Clone, Debug, PartialEq, Eq)]
pub struct RecObs {
    pub head: Vec<u8>,
    pub lines: Vec<Vec<u8>>,
    pub qual: Option<Vec<u8>>,
    /// `seq()` as returned (FASTA: raw, with inner terminators). `None` when the
    /// observation came from an owned record (no raw view)
    pub raw_seq: Option<Vec<u8>>,
}

impl RecObs {
    pub fn matches(&self, r: &RRec) -> bool {
        self.head == r.head
            && self.lines == r.lines
            && self.qual == r.qual
            && self.raw_seq.as_ref().map_or(true, |s| *s == r.raw_seq)
    }
    /// comparison of owned records: FASTA owned records hold the concatenated sequence
    pub fn matches_owned(&self, r: &RRec) -> bool {
        self.head == r.head && self.lines.concat() == r.lines.concat() && self.qual == r.qual
    }
    pub fn short(&self) -> String {
        format!(
            "head={:?} lines={:?} qual={:?}",
            String::from_utf8_lossy(&self.head),
            self.lines
                .iter()
                .map(|l| String::from_utf8_lossy(l).into_owned())
                .collect::<Vec<_>>(),
            self.qual.as_ref().map(|q| String::from_utf8_lossy(q).into_owned())
        )
    }
}

#[derive(Clone, Debug, PartialEq, Eq)]
pub enum Obs {
    Rec(RecObs),
    Err(ErrFull),
    End,
}

impl Obs {
    pub fn short(&self) -> String {
        match self {
            Obs::Rec(r) => format!("Rec({})", r.short()),
            Obs::Err(e) => format!("Err({:?})", e.obs),
            Obs::End => "End".into(),
        }
    }
}

#[derive(Clone, Debug, PartialEq, Eq)]
pub struct ErrFull {
    pub obs: ErrObs,
    pub display: String,
    pub debug: String,
}

pub fn fa_err(e: fasta::Error) -> ErrFull {
    let display = e.to_string();
    let debug = format!("{:?}", e);
    let obs = match e {
        fasta::Error::Io(e) => ErrObs::Io {
            kind: e.kind(),
            msg: e.to_string(),
        },
        fasta::Error::InvalidStart { line, found } => ErrObs::InvalidStart {
            line: line as u64,
            found,
            id: None,
        },
        fasta::Error::BufferLimit => ErrObs::BufferLimit,
    };
    ErrFull { obs, display, debug }
}

pub fn fq_err(e: fastq::Error) -> ErrFull {
    let display = e.to_string();
    let debug = format!("{:?}", e);
    let obs = match e {
        fastq::Error::Io(e) => ErrObs::Io {
            kind: e.kind(),
            msg: e.to_string(),
        },
        fastq::Error::InvalidStart { found, pos } => ErrObs::InvalidStart {
            line: pos.line,
            found,
            id: pos.id,
        },
        fastq::Error::InvalidSep { found, pos } => ErrObs::InvalidSep {
            line: pos.line,
            found,
            id: pos.id,
        },
        fastq::Error::UnequalLengths { seq, qual, pos } => ErrObs::Unequal {
            line: pos.line,
            seq,
            qual,
            id: pos.id,
        },
        fastq::Error::UnexpectedEnd { pos } => ErrObs::UnexpectedEnd {
            line: pos.line,
            id: pos.id,
        },
        fastq::Error::BufferLimit => ErrObs::BufferLimit,
    };
    ErrFull { obs, display, debug }
}

pub fn fa_ref_obs(r: &fasta::RefRecord) -> RecObs {
    RecObs {
        head: r.head().to_vec(),
        lines: r.seq_lines().map(|l| l.to_vec()).collect(),
        qual: None,
        raw_seq: Some(r.seq().to_vec()),
    }
}

pub fn fq_ref_obs(r: &fastq::RefRecord) -> RecObs {
    RecObs {
        head: r.head().to_vec(),
        lines: vec![r.seq().to_vec()],
        qual: Some(r.qual().to_vec()),
        raw_seq: Some(r.seq().to_vec()),
    }
}

pub fn fa_owned_obs(r: &fasta::OwnedRecord) -> RecObs {
    RecObs {
        head: r.head.clone(),
        lines: vec![r.seq.clone()],
        qual: None,
        raw_seq: None,
    }
}

pub fn fq_owned_obs(r: &fastq::OwnedRecord) -> RecObs {
    RecObs {
        head: r.head.clone(),
        lines: vec![r.seq.clone()],
        qual: Some(r.qual.clone()),
        raw_seq: None,
    }
}

pub enum AnyReader {
    Fasta(fasta::Reader<Src, RecPolicy>),
    Fastq(fastq::Reader<Src, RecPolicy>),
}

#[derive(Clone)]
pub enum AnySet {
    Fasta(fasta::RecordSet),
    Fastq(fastq::RecordSet),
}

pub enum SetObs {
    Ok,
    Err(ErrFull),
    End,
}

impl AnySet {
    pub fn new(fmt: Fmt) -> AnySet {
        match fmt {
            Fmt::Fasta => AnySet::Fasta(fasta::RecordSet::default()),
            Fmt::Fastq => AnySet::Fastq(fastq::RecordSet::default()),
        }
    }
    pub fn len(&self) -> usize {
        match self {
            AnySet::Fasta(s) => s.len(),
            AnySet::Fastq(s) => s.len(),
        }
    }
    pub fn is_empty(&self) -> bool {
        match self {
            AnySet::Fasta(s) => s.is_empty(),
            AnySet::Fastq(s) => s.is_empty(),
        }
    }
    pub fn records(&self) -> Vec<RecObs> {
        match self {
            AnySet::Fasta(s) => s.into_iter().map(|r| fa_ref_obs(&r)).collect(),
            AnySet::Fastq(s) => s.into_iter().map(|r| fq_ref_obs(&r)).collect(),
        }
    }
    pub fn buffer(&self) -> &[u8] {
        match self {
            AnySet::Fasta(s) => s.verif_buffer(),
            AnySet::Fastq(s) => s.verif_buffer(),
        }
    }
    /// `Clone::clone_from` of the underlying record set (the destination keeps its own allocations and
    /// whatever an implementation does with them)
    pub fn clone_from_set(&mut self, other: &AnySet) {
        match (self, other) {
            (AnySet::Fasta(d), AnySet::Fasta(s)) => d.clone_from(s),
            (AnySet::Fastq(d), AnySet::Fastq(s)) => d.clone_from(s),
            (d, s) => *d = s.clone(),
        }
    }
    pub fn shrink(&mut self) {
        match self {
            AnySet::Fasta(s) => s.shrink_buffer_to_fit(),
            AnySet::Fastq(s) => s.shrink_buffer_to_fit(),
        }
    }
    pub fn buf_capacity(&self) -> usize {
        match self {
            AnySet::Fasta(s) => s.buf_capacity(),
            AnySet::Fastq(s) => s.buf_capacity(),
        }
    }
}

impl AnyReader {
    pub fn new(fmt: Fmt, src: Src, cap: usize, policy: RecPolicy) -> AnyReader {
        match fmt {
            Fmt::Fasta => {
                AnyReader::Fasta(fasta::Reader::with_capacity(src, cap).set_policy(policy))
            }
            Fmt::Fastq => {
                AnyReader::Fastq(fastq::Reader::with_capacity(src, cap).set_policy(policy))
            }
        }
    }

    pub fn fmt(&self) -> Fmt {
        match self {
            AnyReader::Fasta(_) => Fmt::Fasta,
            AnyReader::Fastq(_) => Fmt::Fastq,
        }
    }

    pub fn next(&mut self) -> Obs {
        match self {
            AnyReader::Fasta(r) => match r.next() {
                None => Obs::End,
                Some(Ok(rec)) => Obs::Rec(fa_ref_obs(&rec)),
                Some(Err(e)) => Obs::Err(fa_err(e)),
            },
            AnyReader::Fastq(r) => match r.next() {
                None => Obs::End,
                Some(Ok(rec)) => Obs::Rec(fq_ref_obs(&rec)),
                Some(Err(e)) => Obs::Err(fq_err(e)),
            },
        }
    }

    /// one step of the borrowed owned-record iterator
    pub fn owned_step(&mut self) -> Obs {
        match self {
            AnyReader::Fasta(r) => match r.records().next() {
                None => Obs::End,
                Some(Ok(rec)) => Obs::Rec(fa_owned_obs(&rec)),
                Some(Err(e)) => Obs::Err(fa_err(e)),
            },
            AnyReader::Fastq(r) => match r.records().next() {
                None => Obs::End,
                Some(Ok(rec)) => Obs::Rec(fq_owned_obs(&rec)),
                Some(Err(e)) => Obs::Err(fq_err(e)),
            },
        }
    }

    /// drains the reader through `into_records()`
    pub fn into_records_all(self, max: usize) -> Vec<Obs> {
        let mut out = vec![];
        match self {
            AnyReader::Fasta(r) => {
                let mut it = r.into_records();
                for _ in 0..max {
                    match it.next() {
                        None => {
                            out.push(Obs::End);
                            // the end must be sticky
                            out.push(match it.next() {
                                None => Obs::End,
                                Some(Ok(rec)) => Obs::Rec(fa_owned_obs(&rec)),
                                Some(Err(e)) => Obs::Err(fa_err(e)),
                            });
                            break;
                        }
                        Some(Ok(rec)) => out.push(Obs::Rec(fa_owned_obs(&rec))),
                        Some(Err(e)) => out.push(Obs::Err(fa_err(e))),
                    }
                }
            }
            AnyReader::Fastq(r) => {
                let mut it = r.into_records();
                for _ in 0..max {
                    match it.next() {
                        None => {
                            out.push(Obs::End);
                            out.push(match it.next() {
                                None => Obs::End,
                                Some(Ok(rec)) => Obs::Rec(fq_owned_obs(&rec)),
                                Some(Err(e)) => Obs::Err(fq_err(e)),
                            });
                            break;
                        }
                        Some(Ok(rec)) => out.push(Obs::Rec(fq_owned_obs(&rec))),
                        Some(Err(e)) => out.push(Obs::Err(fq_err(e))),
                    }
                }
            }
        }
        out
    }

    pub fn read_set(&mut self, set: &mut AnySet, n: Option<usize>) -> SetObs {
        match (self, set) {
            (AnyReader::Fasta(r), AnySet::Fasta(s)) => {
                let res = match n {
                    None => r.read_record_set(s),
                    Some(n) => r.read_record_set_exact(s, Some(n)),
                };
                match res {
                    None => SetObs::End,
                    Some(Ok(())) => SetObs::Ok,
                    Some(Err(e)) => SetObs::Err(fa_err(e)),
                }
            }
            (AnyReader::Fastq(r), AnySet::Fastq(s)) => {
                let res = match n {
                    None => r.read_record_set(s),
                    Some(n) => r.read_record_set_exact(s, Some(n)),
                };
                match res {
                    None => SetObs::End,
                    Some(Ok(())) => SetObs::Ok,
                    Some(Err(e)) => SetObs::Err(fq_err(e)),
                }
            }
            _ => unreachable!("record set of the other format"),
        }
    }

    pub fn seek(&mut self, line: u64, byte: u64) -> Result<(), ErrFull> {
        match self {
            AnyReader::Fasta(r) => r.seek(&fasta::Position::new(line, byte)).map_err(fa_err),
            AnyReader::Fastq(r) => r.seek(&fastq::Position::new(line, byte)).map_err(fq_err),
        }
    }

    /// (line, byte) if the reader reports a position
    pub fn position(&self) -> Option<(u64, u64)> {
        match self {
            AnyReader::Fasta(r) => r.position().map(|p| (p.line(), p.byte())),
            AnyReader::Fastq(r) => {
                let p = r.position();
                Some((p.line(), p.byte()))
            }
        }
    }

    pub fn snapshot(&self) -> Snapshot {
        match self {
            AnyReader::Fasta(r) => r.verif_snapshot(),
            AnyReader::Fastq(r) => r.verif_snapshot(),
        }
    }

    pub fn buffer(&self) -> &[u8] {
        match self {
            AnyReader::Fasta(r) => r.verif_buffer(),
            AnyReader::Fastq(r) => r.verif_buffer(),
        }
    }

    pub fn capacity(&self) -> usize {
        match self {
            AnyReader::Fasta(r) => r.verif_capacity(),
            AnyReader::Fastq(r) => r.verif_capacity(),
        }
    }

    /// generation number of the policy object the reader's `policy()` accessor hands out
    pub fn policy_generation(&self) -> usize {
        match self {
            AnyReader::Fasta(r) => r.policy().generation(),
            AnyReader::Fastq(r) => r.policy().generation(),
        }
    }

    pub fn set_policy(self, p: RecPolicy) -> AnyReader {
        match self {
            AnyReader::Fasta(r) => AnyReader::Fasta(r.set_policy(p)),
            AnyReader::Fastq(r) => AnyReader::Fastq(r.set_policy(p)),
        }
    }
}
