//! splitmix64 — tiny, deterministic, dependency-free (keeps Miri fast)

#[derive(Clone, Debug)]
pub struct Rng(pub u64);

impl Rng {
    pub fn new(seed: u64) -> Rng {
        Rng(seed ^ 0x9E37_79B9_7F4A_7C15)
    }

    /// independent stream derived from several integers
    pub fn derive(parts: &[u64]) -> Rng {
        let mut r = Rng(0x243F_6A88_85A3_08D3);
        for &p in parts {
            r.0 ^= p.wrapping_mul(0xBF58_476D_1CE4_E5B9).rotate_left(17);
            r.next();
        }
        r
    }

    #[inline]
    pub fn next(&mut self) -> u64 {
        self.0 = self.0.wrapping_add(0x9E37_79B9_7F4A_7C15);
        let mut z = self.0;
        z = (z ^ (z >> 30)).wrapping_mul(0xBF58_476D_1CE4_E5B9);
        z = (z ^ (z >> 27)).wrapping_mul(0x94D0_49BB_1331_11EB);
        z ^ (z >> 31)
    }

    /// uniform in 0..n (n > 0)
    #[inline]
    pub fn below(&mut self, n: usize) -> usize {
        debug_assert!(n > 0);
        (self.next() % n as u64) as usize
    }

    /// uniform in lo..=hi
    #[inline]
    pub fn range(&mut self, lo: usize, hi: usize) -> usize {
        lo + self.below(hi - lo + 1)
    }

    /// true with probability num/den
    #[inline]
    pub fn chance(&mut self, num: usize, den: usize) -> bool {
        self.below(den) < num
    }

    pub fn pick<'a, T>(&mut self, xs: &'a [T]) -> &'a T {
        &xs[self.below(xs.len())]
    }

    /// small numbers much more likely than large ones, in 0..=max
    pub fn skewed(&mut self, max: usize) -> usize {
        let a = self.below(max + 1);
        let b = self.below(max + 1);
        a.min(b)
    }
}

/// FNV-1a, used for case signatures and fingerprints
#[derive(Clone, Copy)]
pub struct Fnv(pub u64);

impl Default for Fnv {
    fn default() -> Self {
        Fnv(0xcbf2_9ce4_8422_2325)
    }
}

impl Fnv {
    pub fn new() -> Fnv {
        Fnv::default()
    }
    #[inline]
    pub fn bytes(&mut self, b: &[u8]) -> &mut Self {
        for &x in b {
            self.0 ^= x as u64;
            self.0 = self.0.wrapping_mul(0x0000_0100_0000_01B3);
        }
        self
    }
    #[inline]
    pub fn u64(&mut self, v: u64) -> &mut Self {
        self.bytes(&v.to_le_bytes())
    }
    pub fn finish(&self) -> u64 {
        self.0
    }
}
