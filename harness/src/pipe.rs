//! Pipeline monitors (C07 C08 C15 C16): boundary event log, seeded delay
//! injection at the in-library hook points, mock reader with tagged data sets,
//! scenario runner with progress watchdog.

use crate::rng::{Fnv, Rng};
use seq_io::parallel::{self, read_parallel_init, ParallelRecordsets};
use seq_io::verif_hooks::{set_handler, Point};
use std::cell::Cell;
use std::sync::atomic::{AtomicBool, AtomicU32, AtomicU64, AtomicUsize, Ordering};
use std::sync::Mutex;
use std::time::Duration;

// ---------------------------------------------------------------------------
// event log

#[derive(Clone, Debug, PartialEq, Eq)]
pub enum Ev {
    Point(Point),
    DatasetInit(u64),
    DatasetInitFail(u64),
    ReaderInit(bool),
    FillStart(u64),
    FillEnd(u64, u64),
    FillNone(u64),
    FillErr(u64, u64),
    WorkStart(u64, u64),
    WorkEnd(u64, u64),
    /// consumer got (tag, batch)
    Recv(u64, u64),
    RecvErr(u64),
    RecvEnd,
    FuncStart,
    FuncEnd,
    Returned,
}

#[derive(Clone, Debug)]
pub struct Entry {
    pub thread: u32,
    pub ev: Ev,
}

static LOG: Mutex<Vec<Entry>> = Mutex::new(Vec::new());
static NEXT_THREAD: AtomicU32 = AtomicU32::new(0);
static EVENTS_TOTAL: AtomicU64 = AtomicU64::new(0);

thread_local! {
    static THREAD_ORD: Cell<u32> = const { Cell::new(u32::MAX) };
    static THREAD_RNG: Cell<u64> = const { Cell::new(0) };
}

fn thread_ord() -> u32 {
    THREAD_ORD.with(|t| {
        if t.get() == u32::MAX {
            t.set(NEXT_THREAD.fetch_add(1, Ordering::Relaxed));
        }
        t.get()
    })
}

pub static LOG_ON: AtomicBool = AtomicBool::new(true);

pub fn log(ev: Ev) {
    let t = thread_ord();
    EVENTS_TOTAL.fetch_add(1, Ordering::Relaxed);
    if !LOG_ON.load(Ordering::Relaxed) {
        return;
    }
    // the position in the vector is the global order; it is taken under the lock, so it
    // is consistent with happens-before between the logging threads
    LOG.lock().unwrap_or_else(|e| e.into_inner()).push(Entry { thread: t, ev });
}

pub fn take_log() -> Vec<Entry> {
    std::mem::take(&mut *LOG.lock().unwrap_or_else(|e| e.into_inner()))
}

pub fn events_total() -> u64 {
    EVENTS_TOTAL.load(Ordering::Relaxed)
}

// ---------------------------------------------------------------------------
// delay injection

#[derive(Clone, Copy, Debug, PartialEq, Eq)]
#[repr(u8)]
pub enum Delay {
    None = 0,
    SlowReader,
    SlowWorkers,
    SlowConsumer,
    Random,
    /// only yields (used under Miri, where the scheduler is driven by its own seed)
    Yield,
    /// a long pause at exactly one hook point (all its occurrences), nothing elsewhere:
    /// systematically widens one specific race window per run
    TargetPoint,
    /// a long pause in exactly one kind of harness closure (0 fill, 1 work, 2 consumer)
    TargetRole,
    /// the work call for one batch (or record) stalls for 150-250 ms: results that are
    /// outstanding for a long time while the reader fails, ends or the consumer leaves
    StallOne,
}

impl Delay {
    pub fn name(self) -> &'static str {
        match self {
            Delay::None => "none",
            Delay::SlowReader => "slow-reader",
            Delay::SlowWorkers => "slow-workers",
            Delay::SlowConsumer => "slow-consumer",
            Delay::Random => "random",
            Delay::Yield => "yield",
            Delay::TargetPoint => "target-point",
            Delay::TargetRole => "target-role",
            Delay::StallOne => "stall-one-worker",
        }
    }
}

static DELAY: AtomicUsize = AtomicUsize::new(0);
static DELAY_SEED: AtomicU64 = AtomicU64::new(0);
static DELAY_SCALE_US: AtomicU64 = AtomicU64::new(100);
/// hook point index (TargetPoint) or closure role (TargetRole) that gets the long pause
pub static DELAY_TARGET: AtomicUsize = AtomicUsize::new(0);

fn trng() -> u64 {
    THREAD_RNG.with(|c| {
        let mut s = c.get();
        if s == 0 {
            s = DELAY_SEED.load(Ordering::Relaxed) ^ (thread_ord() as u64 + 1).wrapping_mul(0x9E37_79B9_7F4A_7C15);
        }
        s = s.wrapping_add(0x9E37_79B9_7F4A_7C15);
        c.set(s);
        let mut z = s;
        z = (z ^ (z >> 30)).wrapping_mul(0xBF58_476D_1CE4_E5B9);
        z = (z ^ (z >> 27)).wrapping_mul(0x94D0_49BB_1331_11EB);
        z ^ (z >> 31)
    })
}

fn pause(us: u64) {
    if us == 0 {
        std::thread::yield_now();
    } else if us < 20 {
        let t = std::time::Instant::now();
        while (t.elapsed().as_micros() as u64) < us {
            std::hint::spin_loop();
        }
    } else {
        std::thread::sleep(Duration::from_micros(us));
    }
}

fn is_reader(p: Point) -> bool {
    matches!(
        p,
        Point::ReaderInitDone
            | Point::ReaderGotEmpty
            | Point::ReaderFilled
            | Point::ReaderBeforeExecute
            | Point::ReaderErrBeforeSend
            | Point::ReaderBeforeJoin
            | Point::ReaderBeforeSendNone
    )
}

fn is_worker(p: Point) -> bool {
    matches!(p, Point::WorkerWorkDone | Point::WorkerSent)
}

fn is_consumer(p: Point) -> bool {
    matches!(p, Point::ConsumerRecv | Point::ConsumerRecycled)
}

pub fn on_point(p: Point) {
    log(Ev::Point(p));
    let scale = DELAY_SCALE_US.load(Ordering::Relaxed);
    let r = trng();
    match DELAY.load(Ordering::Relaxed) {
        0 => {}
        1 => {
            if is_reader(p) {
                pause(r % (3 * scale + 1));
            }
        }
        2 => {
            if is_worker(p) {
                // one worker (by thread ordinal) is very slow
                let very = thread_ord() % 3 == 0;
                pause(r % (scale * if very { 10 } else { 2 } + 1));
            }
        }
        3 => {
            if is_consumer(p) || matches!(p, Point::MainBeforeFunc | Point::MainSentEmpty) {
                pause(r % (3 * scale + 1));
            }
        }
        4 => match r % 4 {
            0 => {}
            1 => std::thread::yield_now(),
            2 => pause((r >> 8) % 15),
            _ => pause((r >> 8) % (3 * scale + 1)),
        },
        5 => {
            if r % 2 == 0 {
                std::thread::yield_now();
            }
        }
        6 => {
            if p as usize == DELAY_TARGET.load(Ordering::Relaxed) {
                // mostly long, sometimes none, so that both orders around the point occur
                if r % 4 != 0 {
                    pause(scale * 4 + r % (scale * 8 + 1));
                }
            }
        }
        _ => {}
    }
}

pub fn install(delay: Delay, seed: u64, scale_us: u64) {
    DELAY.store(delay as usize, Ordering::SeqCst);
    DELAY_SEED.store(seed | 1, Ordering::SeqCst);
    DELAY_SCALE_US.store(scale_us, Ordering::SeqCst);
    set_handler(Some(on_point));
}

/// duration of the deliberate long stalls (0: the `StallOne` profile stalls 150-250 ms)
pub static LONG_STALL_MS: AtomicU64 = AtomicU64::new(0);
/// end (ms since the first call of `now_ms`) of a stall the harness itself is making: the progress
/// watchdog must not read it as a deadlock
pub static PAUSE_UNTIL_MS: AtomicU64 = AtomicU64::new(0);

pub fn now_ms() -> u64 {
    static T0: std::sync::OnceLock<std::time::Instant> = std::sync::OnceLock::new();
    T0.get_or_init(std::time::Instant::now).elapsed().as_millis() as u64
}

pub fn deliberate_pause(ms: u64) {
    PAUSE_UNTIL_MS.store(now_ms() + ms, Ordering::SeqCst);
    std::thread::sleep(Duration::from_millis(ms));
    PAUSE_UNTIL_MS.store(0, Ordering::SeqCst);
}

/// the one long stall of the `StallOne` profile (called by the work closures with their batch / record index)
pub fn stall_if_target(index: u64) {
    if DELAY.load(Ordering::Relaxed) == Delay::StallOne as usize && DELAY_TARGET.load(Ordering::Relaxed) as u64 == index {
        let long = LONG_STALL_MS.load(Ordering::Relaxed);
        if long > 0 {
            deliberate_pause(long);
        } else {
            let r = trng();
            std::thread::sleep(Duration::from_millis(150 + r % 100));
        }
    }
}

/// delay inside the harness closures (work / consumer / fill)
pub fn closure_delay(role: u8) {
    let scale = DELAY_SCALE_US.load(Ordering::Relaxed);
    let r = trng();
    match (DELAY.load(Ordering::Relaxed), role) {
        (1, 0) => pause(r % (2 * scale + 1)),
        (2, 1) => {
            let very = thread_ord() % 3 == 0;
            pause(r % (scale * if very { 12 } else { 2 } + 1))
        }
        (3, 2) => pause(r % (4 * scale + 1)),
        (4, _) => {
            if r % 3 == 0 {
                pause((r >> 8) % (2 * scale + 1))
            }
        }
        (5, _) => {
            if r % 2 == 0 {
                std::thread::yield_now()
            }
        }
        (7, role) => {
            if role as usize == DELAY_TARGET.load(Ordering::Relaxed) && r % 4 != 0 {
                pause(scale * 4 + r % (scale * 8 + 1));
            }
        }
        _ => {}
    }
}

// ---------------------------------------------------------------------------
// mock reader with tagged data sets

#[derive(Debug)]
pub struct MockSet {
    pub tag: u64,
    pub batch: Option<u64>,
    pub payload: Vec<u64>,
}

#[derive(Debug, Clone, PartialEq, Eq)]
pub struct MockErr(pub u64);

#[derive(Debug, Clone, PartialEq, Eq)]
pub struct Out {
    pub batch: u64,
    pub tag: u64,
    pub checksum: u64,
    pub len: usize,
}

pub fn payload_of(batch: u64, size: usize) -> impl Iterator<Item = u64> {
    (0..size as u64).map(move |i| batch * 1_000_003 + i * 7 + 1)
}

pub fn checksum(p: &[u64]) -> u64 {
    let mut h = Fnv::new();
    for x in p {
        h.u64(*x);
    }
    h.finish()
}

/// sizes of the record sets the mock reader produces
#[derive(Clone, Debug)]
pub enum Sizes {
    List(Vec<usize>),
    /// n sets of the same size (memory measurements: no per-set bookkeeping in the harness)
    Const(usize, usize),
}

impl Sizes {
    pub fn len(&self) -> usize {
        match self {
            Sizes::List(v) => v.len(),
            Sizes::Const(_, n) => *n,
        }
    }
    pub fn is_empty(&self) -> bool {
        self.len() == 0
    }
    pub fn get(&self, i: usize) -> Option<usize> {
        match self {
            Sizes::List(v) => v.get(i).copied(),
            Sizes::Const(s, n) => {
                if i < *n {
                    Some(*s)
                } else {
                    None
                }
            }
        }
    }
    pub fn head(&self) -> Vec<usize> {
        (0..self.len().min(12)).filter_map(|i| self.get(i)).collect()
    }
}

/// memory measurements: the consumer closures count instead of remembering
pub static LEAN: AtomicBool = AtomicBool::new(false);

pub struct MockReader {
    pub sizes: Sizes,
    pub err_at: Option<usize>,
    pub next: usize,
    pub failed: bool,
}

pub static FILL_AFTER_ERR: AtomicBool = AtomicBool::new(false);

impl parallel::Reader for MockReader {
    type DataSet = MockSet;
    type Err = MockErr;

    fn fill_data(&mut self, set: &mut MockSet) -> Option<Result<(), MockErr>> {
        log(Ev::FillStart(set.tag));
        if self.failed {
            FILL_AFTER_ERR.store(true, Ordering::SeqCst);
        }
        closure_delay(0);
        if self.err_at == Some(self.next) {
            self.failed = true;
            log(Ev::FillErr(set.tag, self.next as u64));
            return Some(Err(MockErr(self.next as u64)));
        }
        if self.next >= self.sizes.len() {
            log(Ev::FillNone(set.tag));
            return None;
        }
        let b = self.next as u64;
        set.payload.clear();
        set.payload.extend(payload_of(b, self.sizes.get(self.next).unwrap()));
        set.batch = Some(b);
        self.next += 1;
        log(Ev::FillEnd(set.tag, b));
        Some(Ok(()))
    }
}

#[derive(Clone, Copy, Debug, PartialEq, Eq)]
pub enum Consumer {
    Drain,
    /// return from the consumer function after k results (k = 0: without asking at all)
    StopAfter(usize),
    /// drains, sleeping between results
    Slow,
    /// drains; after the k-th result it does nothing for `LONG_STALL_MS` (seconds, not microseconds:
    /// a user who looks at a result, a consumer blocked on its own output)
    PauseAfter(usize),
}

#[derive(Clone, Debug, PartialEq, Eq)]
pub enum InitFail {
    None,
    Reader,
    /// dataset_init fails at its k-th call (0-based)
    Dataset(usize),
}

#[derive(Clone, Debug)]
pub struct Scenario {
    pub threads: u32,
    pub queue: usize,
    pub sizes: Sizes,
    pub err_at: Option<usize>,
    pub consumer: Consumer,
    pub init_fail: InitFail,
    pub delay: Delay,
    pub delay_seed: u64,
    pub delay_scale_us: u64,
    pub delay_target: usize,
    /// a consumer that has received the end marker calls `next()` this many more times before it
    /// returns (legal use of the API; every such call must report the end again)
    pub ask_again: usize,
    /// the consumer runs another (small) parallel call of its own while this one is active - paired files
    /// read in lockstep, a lookup in a second file per result
    pub nested: bool,
}

impl Scenario {
    pub fn describe(&self) -> serde_json::Value {
        serde_json::json!({
            "threads": self.threads, "queue": self.queue, "batches": self.sizes.len(),
            "sizes_head": self.sizes.head(),
            "err_at": self.err_at, "consumer": format!("{:?}", self.consumer),
            "init_fail": format!("{:?}", self.init_fail), "delay": self.delay.name(),
            "delay_seed": self.delay_seed, "delay_scale_us": self.delay_scale_us, "delay_target": self.delay_target,
            "ask_again_after_end": self.ask_again, "nested_call_in_consumer": self.nested,
        })
    }
    pub fn class(&self) -> String {
        let c = match self.consumer {
            Consumer::Drain => "drain",
            Consumer::StopAfter(0) => "never-ask",
            Consumer::StopAfter(_) => "stop-after-k",
            Consumer::Slow => "slow-drain",
            Consumer::PauseAfter(_) => "drain-with-one-long-pause",
        };
        let e = match (&self.init_fail, self.err_at) {
            (InitFail::Reader, _) => "reader-init-fails",
            (InitFail::Dataset(_), _) => "dataset-init-fails",
            (_, Some(_)) => "reader-error",
            _ => "ok",
        };
        format!("{}/{}", c, e)
    }
}

#[derive(Debug, Clone, PartialEq, Eq)]
pub enum InitErr {
    Reader,
    Dataset(usize),
}

#[derive(Debug, Clone, PartialEq, Eq)]
pub enum TopErr {
    Init(InitErr),
}

impl From<InitErr> for TopErr {
    fn from(e: InitErr) -> TopErr {
        TopErr::Init(e)
    }
}

/// what the consumer function saw
#[derive(Debug, Default, Clone)]
pub struct Seen {
    /// (tag, batch, payload ok, own result)
    pub sets: Vec<(u64, u64, bool, bool)>,
    pub errs: Vec<u64>,
    pub end_seen: bool,
    pub asked: usize,
    /// number of sets received in lean mode (not remembered individually)
    pub lean_sets: usize,
    /// sets that changed while the consumer was still holding them
    pub changed_while_lent: usize,
    /// calls of next() made after the end marker / results they returned
    pub asked_after_end: usize,
    pub results_after_end: usize,
    pub nested_calls: usize,
    pub nested_failures: usize,
}

pub struct MockResult {
    pub ret: Result<Seen, TopErr>,
    pub dataset_inits: usize,
}

/// Runs the mock pipeline once (blocking). All boundary events go to the global log.
pub fn run_mock(sc: &Scenario) -> MockResult {
    FILL_AFTER_ERR.store(false, Ordering::SeqCst);
    DELAY_TARGET.store(sc.delay_target, Ordering::SeqCst);
    install(sc.delay, sc.delay_seed, sc.delay_scale_us);
    let tag_ctr = AtomicU64::new(0);
    let init_calls = AtomicUsize::new(0);
    let sizes = sc.sizes.clone();
    let err_at = sc.err_at;
    let fail_reader = sc.init_fail == InitFail::Reader;
    let fail_ds = match sc.init_fail {
        InitFail::Dataset(k) => Some(k),
        _ => None,
    };
    let consumer = sc.consumer;
    let ask_again = sc.ask_again;
    let nested = sc.nested;
    let expect_sizes = sc.sizes.clone();
    let ret = read_parallel_init::<MockReader, TopErr, _, InitErr, Out, _, InitErr, _, _, Seen>(
        sc.threads,
        sc.queue,
        move || {
            log(Ev::ReaderInit(!fail_reader));
            if fail_reader {
                Err(InitErr::Reader)
            } else {
                Ok(MockReader {
                    sizes,
                    err_at,
                    next: 0,
                    failed: false,
                })
            }
        },
        || {
            let k = init_calls.fetch_add(1, Ordering::SeqCst);
            if fail_ds == Some(k) {
                log(Ev::DatasetInitFail(k as u64));
                return Err(InitErr::Dataset(k));
            }
            let tag = tag_ctr.fetch_add(1, Ordering::SeqCst);
            log(Ev::DatasetInit(tag));
            Ok(MockSet {
                tag,
                batch: None,
                payload: vec![],
            })
        },
        |set: &mut MockSet| {
            let b = set.batch.unwrap_or(u64::MAX);
            log(Ev::WorkStart(set.tag, b));
            closure_delay(1);
            stall_if_target(b);
            let out = Out {
                batch: b,
                tag: set.tag,
                checksum: checksum(&set.payload),
                len: set.payload.len(),
            };
            log(Ev::WorkEnd(set.tag, b));
            out
        },
        |rsets: &mut ParallelRecordsets<MockSet, MockErr, Out>| {
            log(Ev::FuncStart);
            let mut seen = Seen::default();
            if nested {
                // a parallel call of our own inside the consumer of this one
                seen.nested_calls += 1;
                match run_item_records(2, 1, vec![2, 0, 3, 1], 3) {
                    Ok((got, total)) if got.len() as u64 == total && total == 6 => {}
                    _ => seen.nested_failures += 1,
                }
            }
            let limit = match consumer {
                Consumer::StopAfter(k) => k,
                _ => usize::MAX,
            };
            while seen.asked < limit {
                seen.asked += 1;
                match rsets.next() {
                    None => {
                        log(Ev::RecvEnd);
                        seen.end_seen = true;
                        for _ in 0..ask_again {
                            seen.asked_after_end += 1;
                            if rsets.next().is_some() {
                                seen.results_after_end += 1;
                            }
                        }
                        break;
                    }
                    Some(Err(e)) => {
                        log(Ev::RecvErr(e.0));
                        seen.errs.push(e.0);
                    }
                    Some(Ok((set, out))) => {
                        let b = set.batch.unwrap_or(u64::MAX);
                        log(Ev::Recv(set.tag, b));
                        let payload_ok = match expect_sizes.get(b as usize) {
                            Some(sz) => set.payload.len() == sz && set.payload.iter().copied().eq(payload_of(b, sz)),
                            None => false,
                        };
                        let own = out.batch == b
                            && out.tag == set.tag
                            && out.checksum == checksum(&set.payload)
                            && out.len == set.payload.len();
                        if LEAN.load(Ordering::Relaxed) {
                            seen.lean_sets += 1;
                            if !payload_ok || !own {
                                seen.sets.push((set.tag, b, payload_ok, own));
                            }
                        } else {
                            seen.sets.push((set.tag, b, payload_ok, own));
                        }
                        let (tag0, sum0, len0) = (set.tag, checksum(&set.payload), set.payload.len());
                        if let Consumer::PauseAfter(k) = consumer {
                            if seen.asked == k + 1 {
                                deliberate_pause(LONG_STALL_MS.load(Ordering::Relaxed).max(1));
                            }
                        }
                        if consumer == Consumer::Slow {
                            closure_delay(2);
                            std::thread::sleep(Duration::from_micros(50));
                        } else {
                            closure_delay(2);
                        }
                        // the set is lent to the consumer until the next call of next(): it must not
                        // change meanwhile (e.g. by being recycled to the reader too early)
                        if set.tag != tag0 || set.batch != Some(b) || set.payload.len() != len0 || checksum(&set.payload) != sum0 {
                            seen.changed_while_lent += 1;
                        }
                    }
                }
            }
            log(Ev::FuncEnd);
            seen
        },
    );
    log(Ev::Returned);
    MockResult {
        ret,
        dataset_inits: init_calls.load(Ordering::SeqCst),
    }
}

// ---------------------------------------------------------------------------
// oracles over one mock run

#[derive(Debug, Clone)]
pub struct Finding {
    pub prop: &'static str,
    pub sig: String,
    pub what: String,
}

pub struct LogFacts {
    pub fingerprint: u64,
    pub max_lead: usize,
    pub max_in_flight: usize,
    pub out_of_order: usize,
    pub err_overtook_results: bool,
    /// largest number of work() calls running at the same time
    pub max_work_overlap: usize,
    /// the reader failed while earlier sets were filled but not yet received by the consumer
    pub err_with_sets_in_flight: bool,
    pub tags_created: usize,
    pub reuse_max: usize,
    pub n_events: usize,
}

pub fn check_mock(sc: &Scenario, res: &MockResult, entries: &[Entry], findings: &mut Vec<Finding>) -> LogFacts {
    let mut f = |prop: &'static str, sig: &str, what: String| {
        findings.push(Finding {
            prop,
            sig: sig.to_string(),
            what,
        })
    };
    let n = sc.sizes.len();
    // ---- log-derived facts
    let mut fp = Fnv::new();
    let mut created: Vec<u64> = vec![];
    let mut fill_starts = 0usize;
    let mut recvs_hook = 0usize;
    let mut max_lead = 0usize;
    let mut filled: Vec<u64> = vec![];
    let mut work_open: i64 = 0;
    let mut fill_open: i64 = 0;
    let mut in_flight: i64 = 0;
    let mut max_in_flight = 0i64;
    let mut after_return = 0usize;
    let mut returned = false;
    let mut reuse: std::collections::HashMap<u64, usize> = Default::default();
    let mut work_done_before_err_recv = 0usize;
    let mut err_recv_seen = false;
    let mut work_end_after_err = false;
    let mut err_with_sets_in_flight = false;
    let mut max_work_overlap: i64 = 0;
    for e in entries {
        match &e.ev {
            Ev::Point(p) => {
                fp.u64(*p as u64);
                if *p == Point::ConsumerRecv {
                    recvs_hook += 1;
                }
            }
            Ev::DatasetInit(t) => created.push(*t),
            Ev::FillStart(t) => {
                fill_starts += 1;
                fill_open += 1;
                if !created.contains(t) {
                    f("C16", "unknown-data-set", format!("fill_data got data set {} that was never created", t));
                }
                let lead = fill_starts.saturating_sub(recvs_hook);
                max_lead = max_lead.max(lead);
                if lead > sc.queue {
                    f(
                        "C16",
                        "reader-too-far-ahead",
                        format!(
                            "fill #{} started while the consumer had received only {} sets (queue length {})",
                            fill_starts, recvs_hook, sc.queue
                        ),
                    );
                }
            }
            Ev::FillEnd(t, b) => {
                fill_open -= 1;
                filled.push(*b);
                in_flight += 1;
                max_in_flight = max_in_flight.max(in_flight);
                *reuse.entry(*t).or_insert(0) += 1;
                fp.u64(1000 + *b);
            }
            Ev::FillNone(_) => fill_open -= 1,
            Ev::FillErr(..) => {
                fill_open -= 1;
                if in_flight > 0 {
                    err_with_sets_in_flight = true;
                }
            }
            Ev::WorkStart(t, _) => {
                work_open += 1;
                max_work_overlap = max_work_overlap.max(work_open);
                if !created.contains(t) {
                    f("C16", "unknown-data-set", format!("work got data set {} that was never created", t));
                }
            }
            Ev::WorkEnd(..) => {
                work_open -= 1;
                if err_recv_seen {
                    work_end_after_err = true;
                } else {
                    work_done_before_err_recv += 1;
                }
            }
            Ev::Recv(t, b) => {
                in_flight -= 1;
                fp.u64(2000 + *b);
                if !created.contains(t) {
                    f("C16", "unknown-data-set", format!("consumer got data set {} that was never created", t));
                }
            }
            Ev::RecvErr(_) => err_recv_seen = true,
            Ev::Returned => {
                returned = true;
                if work_open != 0 || fill_open != 0 {
                    f(
                        "C08",
                        "still-processing-at-return",
                        format!("at return {} work calls and {} fill calls were still running", work_open, fill_open),
                    );
                }
            }
            _ => {}
        }
        if returned && !matches!(e.ev, Ev::Returned) {
            after_return += 1;
        }
    }
    let _ = work_done_before_err_recv;
    if after_return > 0 {
        f("C08", "events-after-return", format!("{} boundary events after the call returned", after_return));
    }
    // ---- C16: number of data sets
    if res.dataset_inits > sc.queue + 1 {
        f(
            "C16",
            "too-many-data-sets",
            format!("dataset_init was called {} times with queue length {}", res.dataset_inits, sc.queue),
        );
    }
    // ---- results seen by the consumer
    let out_of_order;
    match &res.ret {
        Err(TopErr::Init(e)) => {
            out_of_order = 0;
            let expected = match &sc.init_fail {
                InitFail::Reader => Some(InitErr::Reader),
                InitFail::Dataset(k) if *k <= sc.queue => Some(InitErr::Dataset(*k)),
                _ => None,
            };
            if expected.as_ref() != Some(e) {
                f("C15", "wrong-init-error", format!("returned {:?}, expected {:?}", e, expected));
            }
        }
        Ok(seen) => {
            // an initialiser failure that was reached must come back as an error
            match &sc.init_fail {
                InitFail::Reader => f("C15", "init-error-lost", "reader_init failed but the call returned Ok".into()),
                InitFail::Dataset(k) if *k <= sc.queue && res.dataset_inits > *k => {
                    f("C15", "init-error-lost", format!("dataset_init call {} failed but the call returned Ok", k))
                }
                _ => {}
            }
            if seen.nested_failures > 0 {
                f("C07", "nested-call-failed", "a parallel call made inside the consumer of another one did not deliver its records".into());
            }
            if seen.results_after_end > 0 {
                f(
                    "C15",
                    "result-after-end-marker",
                    format!("{} of {} calls of next() made after the end marker returned a result", seen.results_after_end, seen.asked_after_end),
                );
            }
            if seen.changed_while_lent > 0 {
                f(
                    "C07",
                    "set-changed-while-lent",
                    format!("{} record sets changed while the consumer was still holding them", seen.changed_while_lent),
                );
            }
            let batches: Vec<u64> = seen.sets.iter().map(|s| s.1).collect();
            let mut sorted = batches.clone();
            sorted.sort();
            let dup = sorted.windows(2).any(|w| w[0] == w[1]);
            if dup {
                f("C07", "duplicate-set", format!("a record set reached the consumer twice: {:?}", batches));
            }
            for (tag, b, payload_ok, own) in &seen.sets {
                if !payload_ok {
                    f("C07", "wrong-payload", format!("set with batch {} (data set {}) does not hold that batch's data", b, tag));
                }
                if !own {
                    f("C07", "foreign-result", format!("set with batch {} arrived with the output of another set", b));
                }
            }
            out_of_order = batches.windows(2).filter(|w| w[1] < w[0]).count();
            if sc.threads == 1 && out_of_order > 0 {
                f("C07", "order-single-worker", format!("with one worker thread the sets arrived as {:?}", batches));
            }
            let drained = seen.end_seen;
            let e = sc.err_at.filter(|e| *e <= n);
            match e {
                None => {
                    if !seen.errs.is_empty() {
                        f("C15", "spurious-error", format!("consumer received errors {:?} although the reader never failed", seen.errs));
                    }
                    if drained {
                        let want: Vec<u64> = (0..n as u64).collect();
                        if sorted != want && !dup {
                            f(
                                "C07",
                                "lost-set",
                                format!("reader produced {} sets, the draining consumer received batches {:?}", n, sorted),
                            );
                        }
                        let mut fl = filled.clone();
                        fl.sort();
                        if fl != want {
                            f("C07", "fill-mismatch", format!("filled batches {:?} differ from the {} expected", fl, n));
                        }
                    }
                }
                Some(e) => {
                    let e = e as u64;
                    if seen.errs.len() > 1 || seen.errs.iter().any(|x| *x != e) {
                        f("C15", "wrong-error", format!("reader failed at batch {} but the consumer received errors {:?}", e, seen.errs));
                    }
                    if sorted.iter().any(|b| *b >= e) {
                        f("C15", "set-after-error", format!("reader failed at batch {} but batches {:?} were received", e, sorted));
                    }
                    if drained {
                        if seen.errs.len() != 1 {
                            f(
                                "C15",
                                "error-not-delivered-once",
                                format!("reader failed at batch {}; the draining consumer received {} errors", e, seen.errs.len()),
                            );
                        }
                        let want: Vec<u64> = (0..e).collect();
                        if sorted != want && !dup {
                            f(
                                "C15",
                                "earlier-set-lost",
                                format!("reader failed at batch {}; earlier batches received: {:?}", e, sorted),
                            );
                        }
                    }
                    if FILL_AFTER_ERR.load(Ordering::SeqCst) {
                        f("C15", "fill-after-error", "fill_data was called again after it had returned an error".into());
                    }
                }
            }
        }
    }
    LogFacts {
        fingerprint: fp.finish(),
        max_lead,
        max_in_flight: max_in_flight.max(0) as usize,
        out_of_order,
        err_overtook_results: err_recv_seen && work_end_after_err,
        err_with_sets_in_flight,
        max_work_overlap: max_work_overlap.max(0) as usize,
        tags_created: created.len(),
        reuse_max: reuse.values().copied().max().unwrap_or(0),
        n_events: entries.len(),
    }
}

pub fn gen_scenario(rng: &mut Rng, miri: bool, long: bool) -> Scenario {
    gen_scenario_t(rng, miri, long, false)
}

/// `thorough`: up to 40 record sets in the ordinary scenarios instead of 12
pub fn gen_scenario_t(rng: &mut Rng, miri: bool, long: bool, thorough: bool) -> Scenario {
    let mut threads = 1 + rng.below(if miri { 3 } else { 8 }) as u32;
    let mut queue = 1 + rng.below(4);
    if !miri && !long {
        // "every thread count >= 1 and every queue length >= 1": now and then far more workers than
        // cores or sets, and long queues
        if rng.chance(1, 40) {
            threads = *rng.pick(&[12u32, 16, 24, 33, 64]);
        }
        if rng.chance(1, 40) {
            queue = *rng.pick(&[5usize, 8, 13, 16, 33]);
        }
    }
    // a queue of thousands of slots with an input of more, or of fewer, record sets than that
    let giant_queue = !miri && !long && rng.chance(1, 150);
    if giant_queue {
        queue = *rng.pick(&[1000usize, 1024, 1025, 2049, 2050, 2800, 5000]);
    }
    let n = if miri {
        rng.below(5)
    } else if giant_queue {
        *rng.pick(&[0usize, 3, 1030, 1500, 3000])
    } else if long {
        200 + rng.below(300)
    } else {
        match rng.below(4) {
            0 => rng.below(3),
            _ => rng.below(if thorough { 41 } else { 13 }),
        }
    };
    let sizes = if giant_queue {
        Sizes::Const(1 + rng.below(3), n)
    } else {
        Sizes::List((0..n).map(|_| if rng.chance(1, 4) { rng.below(30) } else { rng.below(4) }).collect())
    };
    let consumer = match rng.below(10) {
        0 => Consumer::StopAfter(0),
        1 | 2 | 3 => Consumer::StopAfter(rng.below(n + 2)),
        4 => Consumer::Slow,
        _ => Consumer::Drain,
    };
    let err_at = if rng.chance(1, 3) { Some(rng.below(n + 1)) } else { None };
    let init_fail = match rng.below(12) {
        0 => InitFail::Reader,
        1 => InitFail::Dataset(rng.below(queue + 1)),
        _ => InitFail::None,
    };
    let delay = if miri {
        Delay::Yield
    } else if giant_queue {
        Delay::None
    } else {
        *rng.pick(&[
            Delay::None,
            Delay::SlowReader,
            Delay::SlowWorkers,
            Delay::SlowConsumer,
            Delay::Random,
            Delay::Random,
            Delay::TargetPoint,
            Delay::TargetPoint,
            Delay::TargetRole,
        ])
    };
    let (delay, delay_target) = if !miri && !long && !giant_queue && n > 0 && rng.chance(1, 100) {
        (Delay::StallOne, rng.below(n))
    } else {
        match delay {
            Delay::TargetPoint => (delay, rng.below(seq_io::verif_hooks::N_POINTS)),
            Delay::TargetRole => (delay, rng.below(3)),
            _ => (delay, 0),
        }
    };
    Scenario {
        threads,
        queue,
        sizes,
        err_at,
        consumer,
        init_fail,
        delay,
        delay_seed: rng.next(),
        delay_scale_us: if long { 5 } else { *rng.pick(&[5u64, 30, 100]) },
        delay_target,
        ask_again: if rng.chance(1, 4) { 1 + rng.below(3) } else { 0 },
        nested: !miri && !giant_queue && rng.chance(1, 25),
    }
}

// ---------------------------------------------------------------------------
// process / thread observation (native only)

pub fn thread_count() -> usize {
    std::fs::read_dir("/proc/self/task").map(|d| d.count()).unwrap_or(0)
}

/// (state letter, utime+stime) of every thread
pub fn thread_states() -> Vec<(char, u64)> {
    let mut v = vec![];
    if let Ok(d) = std::fs::read_dir("/proc/self/task") {
        for e in d.flatten() {
            if let Ok(s) = std::fs::read_to_string(e.path().join("stat")) {
                // fields after the closing paren of comm
                if let Some(p) = s.rfind(')') {
                    let rest: Vec<&str> = s[p + 1..].split_whitespace().collect();
                    if rest.len() > 13 {
                        let st = rest[0].chars().next().unwrap_or('?');
                        let ut: u64 = rest[11].parse().unwrap_or(0);
                        let stt: u64 = rest[12].parse().unwrap_or(0);
                        v.push((st, ut + stt));
                    }
                }
            }
        }
    }
    v
}

// ---------------------------------------------------------------------------
// real readers through the per-record functions and read_parallel

use crate::refmodel::Fmt;
use seq_io::fasta::{self, Record as FaRecord};
use seq_io::fastq::{self, Record as FqRecord};
use std::io::Read;
use std::sync::Arc;

pub struct ChunkSrc {
    pub data: Arc<Vec<u8>>,
    pub pos: usize,
    pub chunk: usize,
    /// the read call with this 0-based index fails once with this kind
    pub fault: Option<(usize, std::io::ErrorKind)>,
    pub calls: usize,
}

impl Read for ChunkSrc {
    fn read(&mut self, buf: &mut [u8]) -> std::io::Result<usize> {
        let c = self.calls;
        self.calls += 1;
        if let Some((k, kind)) = self.fault {
            if k == c && !buf.is_empty() {
                return Err(std::io::Error::new(kind, "verif-source-fault"));
            }
        }
        let n = buf.len().min(self.chunk.max(1)).min(self.data.len() - self.pos);
        buf[..n].copy_from_slice(&self.data[self.pos..self.pos + n]);
        self.pos += n;
        Ok(n)
    }
}

#[derive(Clone, Copy, Debug, PartialEq, Eq)]
pub enum Api {
    PerRecord,
    PerRecordInit,
    ReadParallel,
    /// the generic `parallel_records` function
    ParallelRecords,
}

#[derive(Clone, Debug, PartialEq, Eq)]
pub enum RealInitFail {
    None,
    Reader,
    RecordData(usize),
    SetData(usize),
}

#[derive(Clone, Debug)]
pub struct RealScenario {
    pub fmt: Fmt,
    pub input: Arc<Vec<u8>>,
    /// number of valid records before the invalid one / the end
    pub n_valid: usize,
    pub has_error: bool,
    pub cap: usize,
    pub chunk: usize,
    pub threads: u32,
    pub queue: usize,
    pub api: Api,
    pub stop_after: Option<usize>,
    pub init_fail: RealInitFail,
    pub delay: Delay,
    pub delay_seed: u64,
    pub delay_scale_us: u64,
    pub delay_target: usize,
    /// one source error (read call index, kind) while the real reader feeds the pipeline
    pub io_fault: Option<(usize, std::io::ErrorKind)>,
}

impl RealScenario {
    fn with_stall(mut self, rng: &mut Rng, skip: bool, n: usize) -> RealScenario {
        if !skip && n > 0 && rng.chance(1, 100) {
            self.delay = Delay::StallOne;
            self.delay_target = rng.below(n);
        }
        self
    }
    pub fn describe(&self) -> serde_json::Value {
        serde_json::json!({
            "format": self.fmt.name(), "input_len": self.input.len(), "input_head": crate::gen::show(&self.input[..self.input.len().min(120)]),
            "valid_records": self.n_valid, "has_error": self.has_error, "capacity": self.cap, "chunk": self.chunk,
            "threads": self.threads, "queue": self.queue, "api": format!("{:?}", self.api), "stop_after": self.stop_after,
            "init_fail": format!("{:?}", self.init_fail), "delay": self.delay.name(), "delay_seed": self.delay_seed, "delay_target": self.delay_target,
            "source_fault": format!("{:?}", self.io_fault),
        })
    }
}

#[derive(Debug, Clone, PartialEq, Eq)]
pub enum RealErr {
    Fasta(String),
    Fastq(String),
    ReaderInit,
    RecInit(usize),
    SetInit(usize),
}

pub struct ErReader;
pub struct ErRec(pub usize);
pub struct ErSet(pub usize);

impl From<fasta::Error> for RealErr {
    fn from(e: fasta::Error) -> Self {
        RealErr::Fasta(format!("{:?}", e))
    }
}
impl From<fastq::Error> for RealErr {
    fn from(e: fastq::Error) -> Self {
        RealErr::Fastq(format!("{:?}", e))
    }
}
impl From<ErReader> for RealErr {
    fn from(_: ErReader) -> Self {
        RealErr::ReaderInit
    }
}
impl From<ErRec> for RealErr {
    fn from(e: ErRec) -> Self {
        RealErr::RecInit(e.0)
    }
}
impl From<ErSet> for RealErr {
    fn from(e: ErSet) -> Self {
        RealErr::SetInit(e.0)
    }
}

#[derive(Default, Debug)]
pub struct RecOut {
    pub hash: u64,
    pub uses: u32,
}

#[derive(Default, Debug)]
pub struct SetData {
    pub id: u64,
    pub n_this: usize,
    pub n_seen: usize,
    pub n_prev: usize,
    pub fills: usize,
}

fn rec_hash(head: &[u8], seq: &[u8], qual: &[u8]) -> u64 {
    let mut h = Fnv::new();
    h.bytes(head).u64(0xff).bytes(seq).u64(0xfe).bytes(qual);
    h.finish()
}

/// index encoded in the header `r<tag>_<idx>`
pub fn id_index(head: &[u8]) -> Option<usize> {
    let id = head.split(|b| *b == b' ').next()?;
    let s = std::str::from_utf8(id).ok()?;
    let idx = s.rsplit('_').next()?;
    idx.parse().ok()
}

#[derive(Default, Debug)]
pub struct RealSeen {
    /// (record index from the id, output is this record's own)
    pub recs: Vec<(Option<usize>, bool)>,
    pub recycled_longer: usize,
    pub recycled_shorter: usize,
    pub set_sizes: Vec<usize>,
    pub set_inits: usize,
    pub rec_inits: usize,
    pub stopped_early: bool,
    pub lean_recs: usize,
}

pub struct RealResult {
    pub ret: Result<Option<()>, RealErr>,
    pub seen: RealSeen,
}

macro_rules! real_impl {
    ($fname:ident, $modname:ident, $par:ident, $par_init:ident, $hash:expr) => {
        pub fn $fname(sc: &RealScenario) -> RealResult {
            DELAY_TARGET.store(sc.delay_target, Ordering::SeqCst);
            install(sc.delay, sc.delay_seed, sc.delay_scale_us);
            let seen = std::cell::RefCell::new(RealSeen::default());
            let src = ChunkSrc {
                data: sc.input.clone(),
                pos: 0,
                chunk: sc.chunk,
                fault: sc.io_fault,
                calls: 0,
            };
            let cap = sc.cap;
            let stop = sc.stop_after;
            let hash = $hash;
            let ret: Result<Option<()>, RealErr> = match sc.api {
                Api::PerRecord => {
                    let reader = $modname::Reader::with_capacity(src, cap);
                    parallel::$par(
                        reader,
                        sc.threads,
                        sc.queue,
                        |rec, out: &mut RecOut| {
                            closure_delay(1);
                            if let Some(i) = id_index(rec.head()) {
                                stall_if_target(i as u64);
                            }
                            out.hash = hash(&rec);
                            out.uses += 1;
                        },
                        |rec, out: &mut RecOut| {
                            let mut s = seen.borrow_mut();
                            if LEAN.load(Ordering::Relaxed) {
                                s.lean_recs += 1;
                                if out.hash != hash(&rec) {
                                    s.recs.push((id_index(rec.head()), false));
                                }
                            } else {
                                s.recs.push((id_index(rec.head()), out.hash == hash(&rec)));
                            }
                            closure_delay(2);
                            if Some(s.recs.len()) == stop {
                                s.stopped_early = true;
                                Some(())
                            } else {
                                None
                            }
                        },
                    )
                    .map_err(RealErr::from)
                }
                Api::PerRecordInit => {
                    let set_inits = AtomicUsize::new(0);
                    let rec_inits = AtomicUsize::new(0);
                    let fail = sc.init_fail.clone();
                    let fail2 = sc.init_fail.clone();
                    let fail3 = sc.init_fail.clone();
                    let r = parallel::$par_init::<_, RealErr, _, ErReader, _, RecOut, ErRec, _, SetData, ErSet, _, _, ()>(
                        sc.threads,
                        sc.queue,
                        move || {
                            if fail == RealInitFail::Reader {
                                Err(ErReader)
                            } else {
                                Ok($modname::Reader::with_capacity(src, cap))
                            }
                        },
                        || {
                            let k = rec_inits.fetch_add(1, Ordering::SeqCst);
                            if fail2 == RealInitFail::RecordData(k) {
                                Err(ErRec(k))
                            } else {
                                Ok(RecOut::default())
                            }
                        },
                        || {
                            let k = set_inits.fetch_add(1, Ordering::SeqCst);
                            if fail3 == RealInitFail::SetData(k) {
                                Err(ErSet(k))
                            } else {
                                Ok(SetData {
                                    id: k as u64,
                                    ..Default::default()
                                })
                            }
                        },
                        |rec, out: &mut RecOut, s: &mut SetData| {
                            closure_delay(1);
                            if let Some(i) = id_index(rec.head()) {
                                stall_if_target(i as u64);
                            }
                            out.hash = hash(&rec);
                            out.uses += 1;
                            s.n_this += 1;
                        },
                        |rec, out: &mut RecOut, s: &mut SetData| {
                            let mut sn = seen.borrow_mut();
                            if LEAN.load(Ordering::Relaxed) {
                                sn.lean_recs += 1;
                                if out.hash != hash(&rec) {
                                    sn.recs.push((id_index(rec.head()), false));
                                }
                            } else {
                                sn.recs.push((id_index(rec.head()), out.hash == hash(&rec)));
                            }
                            s.n_seen += 1;
                            if s.n_seen == s.n_this {
                                // last record of this set
                                if !LEAN.load(Ordering::Relaxed) {
                                    sn.set_sizes.push(s.n_this);
                                }
                                if s.fills > 0 {
                                    if s.n_this > s.n_prev {
                                        sn.recycled_shorter += 1;
                                    } else if s.n_this < s.n_prev {
                                        sn.recycled_longer += 1;
                                    }
                                }
                                s.fills += 1;
                                s.n_prev = s.n_prev.max(s.n_this);
                                s.n_this = 0;
                                s.n_seen = 0;
                            }
                            closure_delay(2);
                            if Some(sn.recs.len()) == stop {
                                sn.stopped_early = true;
                                Some(())
                            } else {
                                None
                            }
                        },
                    );
                    let mut s = seen.borrow_mut();
                    s.set_inits = set_inits.load(Ordering::SeqCst);
                    s.rec_inits = rec_inits.load(Ordering::SeqCst);
                    r
                }
                Api::ParallelRecords => {
                    let reader = $modname::Reader::with_capacity(src, cap);
                    parallel::parallel_records(
                        reader,
                        sc.threads,
                        sc.queue,
                        |rec, out: &mut RecOut| {
                            closure_delay(1);
                            if let Some(i) = id_index(rec.head()) {
                                stall_if_target(i as u64);
                            }
                            out.hash = hash(&rec);
                            out.uses += 1;
                        },
                        |rec, out: &RecOut| {
                            let mut s = seen.borrow_mut();
                            if LEAN.load(Ordering::Relaxed) {
                                s.lean_recs += 1;
                                if out.hash != hash(&rec) {
                                    s.recs.push((id_index(rec.head()), false));
                                }
                            } else {
                                s.recs.push((id_index(rec.head()), out.hash == hash(&rec)));
                            }
                            closure_delay(2);
                            if Some(s.recs.len()) == stop {
                                s.stopped_early = true;
                                Some(())
                            } else {
                                None
                            }
                        },
                    )
                    .map_err(RealErr::from)
                }
                Api::ReadParallel => {
                    let reader = $modname::Reader::with_capacity(src, cap);
                    let r: Result<Option<()>, $modname::Error> = parallel::read_parallel(
                        reader,
                        sc.threads,
                        sc.queue,
                        |set: &mut $modname::RecordSet| {
                            closure_delay(1);
                            let v: Vec<u64> = set.into_iter().map(|r| hash(&r)).collect();
                            v
                        },
                        |rsets| {
                            while let Some(res) = rsets.next() {
                                let (set, out) = match res {
                                    Ok(x) => x,
                                    Err(e) => return Err(e),
                                };
                                let mut s = seen.borrow_mut();
                                let mut k = 0;
                                let lean = LEAN.load(Ordering::Relaxed);
                                for rec in &*set {
                                    let own = out.get(k) == Some(&hash(&rec));
                                    if lean {
                                        s.lean_recs += 1;
                                        if !own {
                                            s.recs.push((id_index(rec.head()), false));
                                        }
                                    } else {
                                        s.recs.push((id_index(rec.head()), own));
                                    }
                                    k += 1;
                                }
                                if k != out.len() {
                                    s.recs.push((None, false));
                                }
                                if !lean {
                                    s.set_sizes.push(k);
                                }
                                closure_delay(2);
                                // still the same records after the pause (the set is lent until the next call)
                                let mut k2 = 0;
                                for rec in &*set {
                                    if out.get(k2) != Some(&hash(&rec)) {
                                        s.recs.push((id_index(rec.head()), false));
                                        break;
                                    }
                                    k2 += 1;
                                }
                                if let Some(st) = stop {
                                    if s.recs.len() >= st {
                                        s.stopped_early = true;
                                        return Ok(Some(()));
                                    }
                                }
                            }
                            Ok(None)
                        },
                    );
                    r.map_err(RealErr::from)
                }
            };
            log(Ev::Returned);
            RealResult {
                ret,
                seen: seen.into_inner(),
            }
        }
    };
}

real_impl!(run_real_fasta, fasta, parallel_fasta, parallel_fasta_init, |r: &fasta::RefRecord| {
    let s = r.owned_seq();
    rec_hash(r.head(), &s, b"")
});
real_impl!(run_real_fastq, fastq, parallel_fastq, parallel_fastq_init, |r: &fastq::RefRecord| rec_hash(
    r.head(),
    r.seq(),
    r.qual()
));

pub fn run_real(sc: &RealScenario) -> RealResult {
    match sc.fmt {
        Fmt::Fasta => run_real_fasta(sc),
        Fmt::Fastq => run_real_fastq(sc),
    }
}

/// the error sequential reading reports for this input at this capacity (Debug text)
pub fn sequential_error(sc: &RealScenario) -> Option<RealErr> {
    let src = ChunkSrc {
        data: sc.input.clone(),
        pos: 0,
        chunk: sc.chunk,
        fault: sc.io_fault,
        calls: 0,
    };
    match sc.fmt {
        Fmt::Fasta => {
            let mut r = fasta::Reader::with_capacity(src, sc.cap);
            while let Some(x) = r.next() {
                if let Err(e) = x {
                    return Some(RealErr::from(e));
                }
            }
            None
        }
        Fmt::Fastq => {
            let mut r = fastq::Reader::with_capacity(src, sc.cap);
            while let Some(x) = r.next() {
                if let Err(e) = x {
                    return Some(RealErr::from(e));
                }
            }
            None
        }
    }
}

pub fn check_real(sc: &RealScenario, res: &RealResult, findings: &mut Vec<Finding>) {
    let mut f = |prop: &'static str, sig: &str, what: String| {
        findings.push(Finding {
            prop,
            sig: sig.to_string(),
            what,
        })
    };
    let ids: Vec<Option<usize>> = res.seen.recs.iter().map(|r| r.0).collect();
    if ids.iter().any(|i| i.is_none()) {
        f("C07", "unknown-record", "a record without a valid id reached the consumer".into());
    }
    let idv: Vec<usize> = ids.iter().flatten().copied().collect();
    let mut sorted = idv.clone();
    sorted.sort();
    if sorted.windows(2).any(|w| w[0] == w[1]) {
        f("C07", "duplicate-record", format!("a record reached the consumer twice: {:?}", &idv[..idv.len().min(60)]));
    }
    if res.seen.recs.iter().any(|r| !r.1) {
        let k = res.seen.recs.iter().position(|r| !r.1).unwrap();
        f(
            "C07",
            "foreign-result",
            format!("record {:?} (arrival {}) came with an output that was not computed for it", ids[k], k),
        );
    }
    if sorted.iter().any(|i| *i >= sc.n_valid) {
        f(
            if sc.has_error { "C15" } else { "C07" },
            "record-after-error",
            format!("record index {:?} delivered but only {} valid records precede the error/end", sorted.last(), sc.n_valid),
        );
    }
    // records inside a set in file order: the id sequence consists of consecutive ascending runs;
    // with one worker the whole sequence is ascending
    if sc.threads == 1 && idv.windows(2).any(|w| w[1] != w[0] + 1) {
        f("C07", "order-single-worker", format!("with one worker thread records arrived as {:?}", &idv[..idv.len().min(60)]));
    }
    if !res.seen.set_sizes.is_empty() {
        let mut k = 0;
        for s in &res.seen.set_sizes {
            let run = &idv[k.min(idv.len())..(k + s).min(idv.len())];
            if run.windows(2).any(|w| w[1] != w[0] + 1) {
                f("C07", "order-inside-set", format!("records inside one set arrived as {:?}", run));
                break;
            }
            k += s;
        }
    }
    let expect_init_err = match &sc.init_fail {
        RealInitFail::Reader => Some(RealErr::ReaderInit),
        RealInitFail::SetData(k) if *k <= sc.queue && res.seen.set_inits > *k => Some(RealErr::SetInit(*k)),
        RealInitFail::RecordData(k) if res.seen.rec_inits > *k => Some(RealErr::RecInit(*k)),
        _ => None,
    };
    match &res.ret {
        Ok(out) => {
            if let Some(e) = expect_init_err {
                // an early-returning consumer may leave before the failing record data reaches it
                let may_miss = matches!(e, RealErr::RecInit(_)) && res.seen.stopped_early;
                if !may_miss {
                    f("C15", "init-error-lost", format!("{:?} failed but the call returned Ok", sc.init_fail));
                }
            } else if out.is_none() {
                // drained to the end without error
                if sc.has_error {
                    f("C15", "parse-error-lost", "the input has an invalid record but the call returned Ok(None)".into());
                } else if sc.io_fault.is_some() && sequential_error(sc).is_some() {
                    f(
                        "C15",
                        "source-error-lost",
                        format!("the source failed ({:?}) and sequential reading reports {:?}, but the call returned Ok(None)", sc.io_fault, sequential_error(sc)),
                    );
                } else {
                    let want: Vec<usize> = (0..sc.n_valid).collect();
                    if sorted != want {
                        f(
                            "C07",
                            "lost-record",
                            format!("{} records in the input, {} distinct records reached the draining consumer", sc.n_valid, sorted.len()),
                        );
                    }
                }
            }
        }
        Err(e) => {
            if let Some(x) = &expect_init_err {
                if e != x {
                    // a parse error of the input may legitimately win the race against a record-data failure
                    let seqe = sequential_error(sc);
                    if Some(e) != seqe.as_ref() {
                        f("C15", "wrong-init-error", format!("returned {:?}, expected {:?}", e, x));
                    }
                }
            } else {
                let seqe = sequential_error(sc);
                if seqe.as_ref() != Some(e) {
                    f(
                        "C15",
                        "parse-error-differs",
                        format!("parallel path returned {:?}, sequential reading reports {:?}", e, seqe),
                    );
                }
                // a draining consumer has seen every earlier record
                if sc.stop_after.is_none() && sc.api != Api::ReadParallel {
                    // set reads may report the error ahead of the records of the same buffer-full (C04),
                    // so only "no later record" and uniqueness are demanded here
                }
            }
        }
    }
    if res.seen.set_inits > sc.queue + 1 {
        f(
            "C16",
            "too-many-data-sets",
            format!("rset_data_init was called {} times with queue length {}", res.seen.set_inits, sc.queue),
        );
    }
}

pub fn gen_real(rng: &mut Rng, miri: bool, tag: u64, big: bool) -> RealScenario {
    let fmt = if rng.chance(1, 2) { Fmt::Fasta } else { Fmt::Fastq };
    // heavy variance of record sizes -> number of records per set varies
    let n = if miri {
        1 + rng.below(6)
    } else if big {
        2000 + rng.below(8000)
    } else {
        rng.below(120)
    };
    let crlf = rng.chance(1, 5);
    let t: &[u8] = if crlf { b"\r\n" } else { b"\n" };
    let invalid_at = if !big && fmt == Fmt::Fastq && n > 0 && rng.chance(1, 3) { Some(rng.below(n)) } else { None };
    let mut input = vec![];
    let mut block_big = false;
    for i in 0..n {
        if rng.chance(1, 6) {
            block_big = !block_big;
        }
        let len = if block_big { 20 + rng.below(60) } else { rng.below(6) };
        let head = format!("r{}_{}{}", tag, i, if rng.chance(1, 3) { " desc" } else { "" });
        match fmt {
            Fmt::Fasta => {
                input.push(b'>');
                input.extend_from_slice(head.as_bytes());
                input.extend_from_slice(t);
                let nl = 1 + rng.below(3);
                for _ in 0..nl {
                    input.extend((0..len / nl + 1).map(|k| b"ACGT"[k % 4]));
                    input.extend_from_slice(t);
                }
            }
            Fmt::Fastq => {
                input.push(b'@');
                input.extend_from_slice(head.as_bytes());
                input.extend_from_slice(t);
                input.extend((0..len).map(|k| b"ACGT"[k % 4]));
                input.extend_from_slice(t);
                if invalid_at == Some(i) {
                    input.extend_from_slice(b"-");
                } else {
                    input.push(b'+');
                }
                input.extend_from_slice(t);
                input.extend((0..len).map(|_| b'I'));
                input.extend_from_slice(t);
            }
        }
    }
    let fasta_invalid = !big && fmt == Fmt::Fasta && rng.chance(1, 12);
    if fasta_invalid {
        let mut b = b"\n;comment\n".to_vec();
        b.extend_from_slice(&input);
        input = b;
    }
    let n_valid = if fasta_invalid { 0 } else { invalid_at.unwrap_or(n) };
    let has_error = fasta_invalid || invalid_at.is_some();
    let cap = if big { *rng.pick(&[256usize, 1024, 4096]) } else { *rng.pick(&[3usize, 16, 64, 200, 256, 1000]) };
    let api = match rng.below(6) {
        0 | 1 => Api::PerRecord,
        2 | 3 => Api::PerRecordInit,
        4 => Api::ParallelRecords,
        _ => Api::ReadParallel,
    };
    let queue = if !miri && !big && rng.chance(1, 40) { *rng.pick(&[5usize, 8, 16, 33]) } else { 1 + rng.below(4) };
    let init_fail = if api == Api::PerRecordInit && !big {
        match rng.below(10) {
            0 => RealInitFail::Reader,
            1 => RealInitFail::SetData(rng.below(queue + 1)),
            2 => RealInitFail::RecordData(rng.below(n + 1)),
            _ => RealInitFail::None,
        }
    } else {
        RealInitFail::None
    };
    RealScenario {
        fmt,
        input: Arc::new(input),
        n_valid,
        has_error,
        cap,
        io_fault: if !big && !has_error && rng.chance(1, 5) { Some((rng.below(10), *rng.pick(&crate::src::ERR_KINDS))) } else { None },
        chunk: *rng.pick(&[1usize, 7, 64, 100_000]),
        threads: if !miri && !big && rng.chance(1, 40) { *rng.pick(&[12u32, 16, 33, 64]) } else { 1 + rng.below(if miri { 3 } else { 8 }) as u32 },
        queue,
        api,
        stop_after: if rng.chance(1, 4) { Some(rng.below(n + 2)) } else { None },
        init_fail,
        delay: if miri {
            Delay::Yield
        } else {
            *rng.pick(&[
                Delay::None,
                Delay::SlowReader,
                Delay::SlowWorkers,
                Delay::SlowConsumer,
                Delay::Random,
                Delay::TargetPoint,
                Delay::TargetRole,
            ])
        },
        delay_seed: rng.next(),
        delay_scale_us: if big { 2 } else { *rng.pick(&[5u64, 30]) },
        delay_target: rng.below(15),
    }
    .with_stall(rng, miri || big, n)
}

// ---------------------------------------------------------------------------
// `parallel_records` over a user-defined reader whose data sets iterate with a legal but
// inexact `size_hint` (the crate's own record sets are only one implementation of the trait)

#[derive(Default)]
pub struct ItemSet {
    items: Vec<u64>,
    hint_mode: u8,
}

pub struct ItemIter<'a> {
    it: std::slice::Iter<'a, u64>,
    mode: u8,
}

impl<'a> Iterator for ItemIter<'a> {
    type Item = &'a u64;
    fn next(&mut self) -> Option<&'a u64> {
        self.it.next()
    }
    fn size_hint(&self) -> (usize, Option<usize>) {
        let rem = self.it.len();
        match self.mode % 4 {
            0 => (0, None),
            1 => (rem.min(1), None),
            2 => (rem / 2, Some(rem + 3)),
            _ => (rem, Some(rem)),
        }
    }
}

impl<'a> IntoIterator for &'a ItemSet {
    type Item = &'a u64;
    type IntoIter = ItemIter<'a>;
    fn into_iter(self) -> ItemIter<'a> {
        ItemIter {
            it: self.items.iter(),
            mode: self.hint_mode,
        }
    }
}

pub struct ItemReader {
    sizes: Vec<usize>,
    next_batch: usize,
    counter: u64,
    hint_mode: u8,
}

impl parallel::Reader for ItemReader {
    type DataSet = ItemSet;
    type Err = String;
    fn fill_data(&mut self, d: &mut ItemSet) -> Option<Result<(), String>> {
        if self.next_batch == self.sizes.len() {
            return None;
        }
        d.items.clear();
        for _ in 0..self.sizes[self.next_batch] {
            d.items.push(self.counter);
            self.counter += 1;
        }
        d.hint_mode = self.hint_mode;
        self.next_batch += 1;
        Some(Ok(()))
    }
}

/// runs `parallel_records` over an `ItemReader`; returns (items in arrival order with their outputs, total)
pub fn run_item_records(threads: u32, queue: usize, sizes: Vec<usize>, hint_mode: u8) -> Result<(Vec<(u64, u64)>, u64), String> {
    let total: u64 = sizes.iter().map(|s| *s as u64).sum();
    let rdr = ItemReader {
        sizes,
        next_batch: 0,
        counter: 0,
        hint_mode,
    };
    let mut got: Vec<(u64, u64)> = vec![];
    let r: Result<Option<()>, String> = parallel::parallel_records(
        rdr,
        threads,
        queue,
        |item: &u64, out: &mut u64| {
            *out = item.wrapping_mul(3).wrapping_add(1);
        },
        |item: &u64, out: &u64| {
            got.push((*item, *out));
            None
        },
    );
    r?;
    Ok((got, total))
}

// ---------------------------------------------------------------------------
// per-record function with LARGE per-record output objects and batches whose record count goes
// down and up: whatever an implementation does to the recycled vector of such objects, every
// record must arrive once with its own output

pub struct BigOut(pub Box<[u64; 2048]>);

impl Default for BigOut {
    fn default() -> Self {
        BigOut(Box::new([0u64; 2048]))
    }
}

/// big record data stored inline (16 KiB per record) - the vector of outputs is what grows
#[derive(Clone)]
pub struct InlineOut(pub [u64; 2048]);

impl Default for InlineOut {
    fn default() -> Self {
        InlineOut([0u64; 2048])
    }
}

/// (records expected, records received with (index, own output ok))
pub fn run_bigdata_records(fastq: bool, threads: u32, queue: usize, shard: u64) -> Result<(usize, Vec<(usize, bool)>), String> {
    // stretches of short and of longer records: the number of records per buffer-full changes by
    // less than a factor of two between neighbouring stretches
    let mut input = vec![];
    let n = 2600usize;
    for i in 0..n {
        let stretch = (i / 450) % 3;
        let l = [4usize, 9, 6][stretch] + (shard as usize % 3);
        let head = format!("{}", i);
        if fastq {
            input.push(b'@');
            input.extend_from_slice(head.as_bytes());
            input.push(b'\n');
            input.extend((0..l).map(|k| b"ACGT"[k % 4]));
            input.extend_from_slice(b"\n+\n");
            input.extend((0..l).map(|_| b'I'));
            input.push(b'\n');
        } else {
            input.push(b'>');
            input.extend_from_slice(head.as_bytes());
            input.push(b'\n');
            input.extend((0..l).map(|k| b"ACGT"[k % 4]));
            input.push(b'\n');
        }
    }
    let cap = 4096;
    let mut got: Vec<(usize, bool)> = vec![];
    let key = |id: usize, len: usize| (id as u64).wrapping_mul(0x9E37_79B9).wrapping_add(len as u64);
    if fastq {
        let rdr = fastq::Reader::with_capacity(&input[..], cap);
        let r: Result<Option<()>, fastq::Error> = parallel::parallel_fastq(
            rdr,
            threads,
            queue,
            |rec, out: &mut InlineOut| {
                let id: usize = std::str::from_utf8(rec.head()).ok().and_then(|s| s.parse().ok()).unwrap_or(usize::MAX);
                out.0[0] = key(id, rec.seq().len());
                out.0[2047] = !out.0[0];
            },
            |rec, out| {
                let id: usize = std::str::from_utf8(rec.head()).ok().and_then(|s| s.parse().ok()).unwrap_or(usize::MAX);
                got.push((id, out.0[0] == key(id, rec.seq().len()) && out.0[2047] == !out.0[0]));
                None
            },
        );
        r.map_err(|e| format!("{:?}", e))?;
    } else {
        let rdr = fasta::Reader::with_capacity(&input[..], cap);
        let r: Result<Option<()>, fasta::Error> = parallel::parallel_fasta(
            rdr,
            threads,
            queue,
            |rec, out: &mut InlineOut| {
                let id: usize = std::str::from_utf8(rec.head()).ok().and_then(|s| s.parse().ok()).unwrap_or(usize::MAX);
                out.0[0] = key(id, rec.seq().len());
                out.0[2047] = !out.0[0];
            },
            |rec, out| {
                let id: usize = std::str::from_utf8(rec.head()).ok().and_then(|s| s.parse().ok()).unwrap_or(usize::MAX);
                got.push((id, out.0[0] == key(id, rec.seq().len()) && out.0[2047] == !out.0[0]));
                None
            },
        );
        r.map_err(|e| format!("{:?}", e))?;
    }
    Ok((n, got))
}
