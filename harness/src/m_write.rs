//! C10 C11 — writing monitors: write -> re-parse, line splitter, byte ranges

use crate::gen::{self, show, GenOpts};
use crate::refmodel::{ref_fasta, ref_fastq, Fmt};
use crate::report::{guarded, Report};
use crate::rng::{Fnv, Rng};
use crate::seqmon::Ctx;
use seq_io::fasta::{self, Record as FaRecord};
use seq_io::fastq::{self, Record as FqRecord};
use serde_json::json;

fn gen_head_domain(rng: &mut Rng, max: usize) -> Vec<u8> {
    // headers without LF and not ending in CR
    let n = rng.skewed(max);
    let mut h: Vec<u8> = (0..n)
        .map(|_| *rng.pick(b"abcXYZ019 >@+;\t\xc3\xa9\xff\r"))
        .collect();
    while h.last() == Some(&b'\r') {
        h.pop();
    }
    h
}

fn gen_seq_domain(rng: &mut Rng, len: usize) -> Vec<u8> {
    // sequences without LF, CR or '>'
    (0..len).map(|_| *rng.pick(b"ACGTNacgtn *-@+")).collect()
}

/// splits `seq` at the cut positions given by the bits of `mask` and interleaves empty chunks
fn chunks_of<'a>(seq: &'a [u8], mask: u64, empties: u64) -> Vec<&'a [u8]> {
    let mut v = vec![];
    let mut start = 0;
    let mut e = empties;
    let mut push_empty = |v: &mut Vec<&'a [u8]>| {
        if e & 1 == 1 {
            v.push(&seq[0..0]);
        }
        e >>= 1;
    };
    push_empty(&mut v);
    for i in 1..seq.len() {
        if (mask >> ((i - 1) % 64)) & 1 == 1 {
            v.push(&seq[start..i]);
            push_empty(&mut v);
            start = i;
        }
    }
    v.push(&seq[start..]);
    push_empty(&mut v);
    v
}

/// independent line splitter for the wrap check: returns the sequence lines of a one-record output
fn seq_lines_of(out: &[u8]) -> Option<Vec<&[u8]>> {
    let nl = out.iter().position(|b| *b == b'\n')?;
    let body = &out[nl + 1..];
    if body.is_empty() {
        return Some(vec![]);
    }
    if body.last() != Some(&b'\n') {
        return None;
    }
    Some(body[..body.len() - 1].split(|b| *b == b'\n').collect())
}

fn parse_fasta_real(bytes: &[u8], cap: usize) -> Result<Vec<(Vec<u8>, Vec<u8>)>, String> {
    let mut rdr = fasta::Reader::with_capacity(bytes, cap.max(3));
    let mut v = vec![];
    while let Some(r) = rdr.next() {
        let r = r.map_err(|e| e.to_string())?;
        v.push((r.head().to_vec(), r.owned_seq()));
        if v.len() > bytes.len() + 2 {
            return Err("reader does not end".into());
        }
    }
    Ok(v)
}

fn parse_fastq_real(bytes: &[u8], cap: usize) -> Result<Vec<(Vec<u8>, Vec<u8>, Vec<u8>)>, String> {
    let mut rdr = fastq::Reader::with_capacity(bytes, cap.max(3));
    let mut v = vec![];
    while let Some(r) = rdr.next() {
        let r = r.map_err(|e| e.to_string())?;
        v.push((r.head().to_vec(), r.seq().to_vec(), r.qual().to_vec()));
        if v.len() > bytes.len() + 2 {
            return Err("reader does not end".into());
        }
    }
    Ok(v)
}

/// The `io::Write` the writers write into. Plain: like a `Vec<u8>`. Odd: everything `Write` permits —
/// short writes of 1..=k bytes, its own `write_vectored` that stops in the middle of any slice, and
/// `Interrupted` errors now and then (which `write_all` has to retry). The bytes that arrive must be
/// the same for both.
pub struct Sink {
    pub out: Vec<u8>,
    /// accepts this many bytes, then every call fails (a full disk, a closed pipe)
    fail_after: Option<usize>,
    odd: Option<(Rng, usize)>,
    pub short_writes: usize,
    pub vectored_calls: usize,
}

impl Sink {
    pub fn plain() -> Sink {
        Sink { out: vec![], fail_after: None, odd: None, short_writes: 0, vectored_calls: 0 }
    }
    pub fn odd(seed: u64, max: usize) -> Sink {
        Sink { out: vec![], fail_after: None, odd: Some((Rng::new(seed), max.max(1))), short_writes: 0, vectored_calls: 0 }
    }
    pub fn failing(after: usize) -> Sink {
        Sink { out: vec![], fail_after: Some(after), odd: None, short_writes: 0, vectored_calls: 0 }
    }
    fn fail(&mut self, want: usize) -> Option<std::io::Result<usize>> {
        let left = self.fail_after?;
        if left == 0 {
            return Some(Err(std::io::Error::new(std::io::ErrorKind::Other, "verif-write-failure")));
        }
        let n = left.min(want);
        self.fail_after = Some(left - n);
        Some(Ok(n))
    }
}

impl std::io::Write for Sink {
    fn write(&mut self, buf: &[u8]) -> std::io::Result<usize> {
        if !buf.is_empty() {
            if let Some(r) = self.fail(buf.len()) {
                if let Ok(n) = r {
                    self.out.extend_from_slice(&buf[..n]);
                }
                return r;
            }
        }
        match &mut self.odd {
            None => {
                self.out.extend_from_slice(buf);
                Ok(buf.len())
            }
            Some((rng, max)) => {
                if buf.is_empty() {
                    return Ok(0);
                }
                if rng.chance(1, 8) {
                    return Err(std::io::Error::new(std::io::ErrorKind::Interrupted, "verif-interrupted-write"));
                }
                let n = (1 + rng.below(*max)).min(buf.len());
                if n < buf.len() {
                    self.short_writes += 1;
                }
                self.out.extend_from_slice(&buf[..n]);
                Ok(n)
            }
        }
    }
    fn write_vectored(&mut self, bufs: &[std::io::IoSlice<'_>]) -> std::io::Result<usize> {
        self.vectored_calls += 1;
        if self.fail_after.is_some() {
            // the first non-empty slice, like the default implementation
            return match bufs.iter().find(|b| !b.is_empty()) {
                Some(b) => std::io::Write::write(self, b),
                None => Ok(0),
            };
        }
        match &mut self.odd {
            None => {
                let mut t = 0;
                for b in bufs {
                    self.out.extend_from_slice(b);
                    t += b.len();
                }
                Ok(t)
            }
            Some((rng, max)) => {
                if rng.chance(1, 8) && bufs.iter().any(|b| !b.is_empty()) {
                    return Err(std::io::Error::new(std::io::ErrorKind::Interrupted, "verif-interrupted-write"));
                }
                // up to k bytes, across slice borders
                let mut k = 1 + rng.below(*max);
                let mut t = 0;
                for b in bufs {
                    let n = k.min(b.len());
                    self.out.extend_from_slice(&b[..n]);
                    t += n;
                    k -= n;
                    if k == 0 {
                        break;
                    }
                }
                Ok(t)
            }
        }
    }
    fn flush(&mut self) -> std::io::Result<()> {
        Ok(())
    }
}

/// A chunk iterator whose `size_hint` is legal but not exact: the lower bound may be anything up to the
/// number of items left, the upper bound anything from there on or `None`. (`slice::split`, `filter`,
/// `from_fn`, `chain` of such ... all behave like this.)
pub struct HintIter<'a> {
    items: std::vec::IntoIter<&'a [u8]>,
    mode: u8,
}

impl<'a> HintIter<'a> {
    pub fn new(ch: &[&'a [u8]], mode: u8) -> HintIter<'a> {
        HintIter { items: ch.to_vec().into_iter(), mode }
    }
}

impl<'a> Iterator for HintIter<'a> {
    type Item = &'a [u8];
    fn next(&mut self) -> Option<&'a [u8]> {
        self.items.next()
    }
    fn size_hint(&self) -> (usize, Option<usize>) {
        let rem = self.items.len();
        match self.mode % 4 {
            0 => (0, None),
            1 => (rem.min(1), None),
            2 => (rem / 2, Some(rem + 3)),
            _ => (rem.min(1), Some(rem.max(1) * 2)),
        }
    }
}

type FaWriter = (&'static str, bool, Box<dyn Fn(&mut Sink, &[u8], &[u8], usize, &[&[u8]]) -> std::io::Result<()>>);

fn id_desc(head: &[u8]) -> (&[u8], Option<&[u8]>) {
    match head.iter().position(|b| *b == b' ') {
        Some(i) => (&head[..i], Some(&head[i + 1..])),
        None => (head, None),
    }
}

/// text of one FASTA record as some other program may have written it: the sequence in lines of the
/// width that will be asked for, of one less, one more, or unrelated; LF, CRLF, or different endings for
/// header and sequence lines
fn layout_record(h: &[u8], s: &[u8], width: usize) -> Vec<u8> {
    let v = h.len().wrapping_mul(31).wrapping_add(s.len()).wrapping_add(width);
    let l = match v % 4 {
        0 => width,
        1 => width.saturating_sub(1).max(1),
        2 => width.saturating_add(1),
        _ => (width % 7).max(1),
    };
    let (t0, t1): (&[u8], &[u8]) = match (v / 4) % 4 {
        0 => (b"\n", b"\n"),
        1 => (b"\r\n", b"\r\n"),
        2 => (b"\n", b"\r\n"),
        _ => (b"\r\n", b"\n"),
    };
    let mut tmp = vec![b'>'];
    tmp.extend_from_slice(h);
    tmp.extend_from_slice(t0);
    for line in s.chunks(l.max(1)) {
        tmp.extend_from_slice(line);
        tmp.extend_from_slice(t1);
    }
    tmp
}

/// (name, wrapped?, writer). The writer gets head, seq, wrap width, chunking of seq.
fn fasta_writers() -> Vec<FaWriter> {
    vec![
        ("write_to", false, Box::new(|w, h, s, _, _| fasta::write_to(w, h, s))),
        ("write_parts", false, Box::new(|w, h, s, _, _| {
            let (id, d) = id_desc(h);
            fasta::write_parts(w, id, d, s)
        })),
        ("write_wrap", true, Box::new(|w, h, s, width, _| {
            let (id, d) = id_desc(h);
            fasta::write_wrap(w, id, d, s, width)
        })),
        ("write_head+write_seq", false, Box::new(|w, h, s, _, _| {
            fasta::write_head(&mut *w, h)?;
            fasta::write_seq(w, s)
        })),
        ("write_id_desc+write_wrap_seq", true, Box::new(|w, h, s, width, _| {
            let (id, d) = id_desc(h);
            fasta::write_id_desc(&mut *w, id, d)?;
            fasta::write_wrap_seq(w, s, width)
        })),
        ("write_head+write_seq_iter", false, Box::new(|w, h, _, _, ch| {
            fasta::write_head(&mut *w, h)?;
            fasta::write_seq_iter(w, ch.iter().copied())
        })),
        ("write_head+write_wrap_seq_iter", true, Box::new(|w, h, _, width, ch| {
            fasta::write_head(&mut *w, h)?;
            fasta::write_wrap_seq_iter(w, ch.iter().copied(), width)
        })),
        ("write_head+write_seq_iter(loose size_hint)", false, Box::new(|w, h, _, width, ch| {
            fasta::write_head(&mut *w, h)?;
            fasta::write_seq_iter(w, HintIter::new(ch, (width % 4) as u8))
        })),
        ("write_head+write_wrap_seq_iter(loose size_hint)", true, Box::new(|w, h, _, width, ch| {
            fasta::write_head(&mut *w, h)?;
            fasta::write_wrap_seq_iter(w, HintIter::new(ch, (width.wrapping_add(ch.len()) % 4) as u8), width)
        })),
        ("OwnedRecord::write", false, Box::new(|w, h, s, _, _| {
            fasta::OwnedRecord { head: h.to_vec(), seq: s.to_vec() }.write(w)
        })),
        ("OwnedRecord::write_wrap", true, Box::new(|w, h, s, width, _| {
            fasta::OwnedRecord { head: h.to_vec(), seq: s.to_vec() }.write_wrap(w, width)
        })),
        ("RefRecord::write", false, Box::new(|w, h, s, width, _| {
            // a borrowed record with several lines, parsed from a text with its own layout
            let tmp = layout_record(h, s, width);
            let mut rdr = fasta::Reader::new(&tmp[..]);
            match rdr.next() {
                Some(Ok(r)) => r.write(w),
                _ => Err(std::io::Error::new(std::io::ErrorKind::Other, "could not re-read")),
            }
        })),
        ("RefRecord::write_wrap", true, Box::new(|w, h, s, width, _| {
            let tmp = layout_record(h, s, width);
            let mut rdr = fasta::Reader::new(&tmp[..]);
            match rdr.next() {
                Some(Ok(r)) => r.write_wrap(w, width),
                _ => Err(std::io::Error::new(std::io::ErrorKind::Other, "could not re-read")),
            }
        })),
    ]
}

pub fn c10(ctx: &Ctx, rep: &mut Report) {
    let writers = fasta_writers();
    let mut idx = ctx.only.unwrap_or(0);
    // exhaustive part: n <= 10, width <= 5, all 2^(n-1) chunkings
    let exh_total: u64 = if ctx.miri { 20 } else { 11 * 5 };
    let mut exh_done = true;
    loop {
        if ctx.only.is_none() && (ctx.expired() || idx >= ctx.max_cases) {
            if idx * ctx.nshards + ctx.shard < exh_total {
                exh_done = false;
            }
            break;
        }
        ctx.begin(idx);
        let mut rng = Rng::derive(&[ctx.seed, ctx.shard, idx, 10]);
        let g = idx * ctx.nshards + ctx.shard;
        let exhaustive = g < exh_total;
        let (n, width) = if exhaustive {
            ((g / 5) as usize, (g % 5) as usize + 1)
        } else if !ctx.miri && rng.chance(1, 150) {
            // large sequences: beyond any internal chunk size a writer may use, lengths that are
            // multiples of the width, powers of two; also very large widths
            let width = if rng.chance(1, 2) {
                // every power of two and its neighbours (a writer's internal buffer size is one of them)
                ((1usize << rng.range(5, 17)) as i64 + rng.range(0, 2) as i64 - 1) as usize
            } else {
                *rng.pick(&[1usize, 7, 60, 64, 70, 80, 100, 255, 256, 1000, 2047, 2048, 4096, 65535, 65536, 70000])
            };
            let base = match rng.below(5) {
                0 => 1usize << rng.range(13, 18),
                1 => rng.range(8193, 40_000),
                2 => rng.range(40_000, 200_000),
                // one to three full lines, give or take a byte
                3 => width * rng.range(1, 3) + rng.range(0, 2),
                _ => rng.range(2, 9) * 8192,
            };
            let mut n = match rng.below(3) {
                0 => (base / width).max(1) * width, // exact multiple of the width
                1 => (base / width).max(1) * width + rng.range(0, 2) - 1,
                _ => base,
            };
            if rng.chance(1, 3) {
                // the wrapped OUTPUT (sequence bytes plus one newline per full line) is 2^k or 2^k +- 1 bytes
                // long, k = 10..21: the last line ends exactly at the end of a block of an internal buffer
                let k = if rng.chance(1, 6) { rng.range(19, 21) } else { rng.range(10, 18) };
                let target = (1usize << k) + rng.range(0, 2) - 1;
                let guess = target / (width + 1) * width + target % (width + 1);
                let mut best = guess.max(1);
                for cand in guess.saturating_sub(3)..guess + 4 {
                    if cand > 0 && cand + cand / width == target {
                        best = cand;
                        break;
                    }
                }
                n = best;
                rep.count("wrapped_output_sizes_at_powers_of_two");
            }
            rep.count("large_sequences");
            (n, width)
        } else if rng.chance(1, 40) {
            // widths near the top of the integer range ("all wrap widths >= 1"): anything that adds to or
            // multiplies the width overflows
            let width = *rng.pick(&[usize::MAX, usize::MAX - 1, usize::MAX / 2 + 1, usize::MAX / 2, 1usize << 63, (1usize << 32) + 1, 1usize << 32, (1usize << 32) - 1, 1usize << 31]);
            rep.count("huge_widths");
            (rng.below(40), width)
        } else {
            let width = *rng.pick(&[1usize, 2, 3, 4, 5, 6, 7, 8, 9, 10, 11, 12, 13, 14, 15, 16, 17, 60, 80]);
            let n = match rng.below(4) {
                0 => width * rng.below(5),
                1 => rng.below(4 * width + 2),
                _ => rng.below(2 * width + 2),
            };
            (n, width)
        };
        let head = gen_head_domain(&mut rng, 24);
        let seq = gen_seq_domain(&mut rng, n);
        let masks: Vec<(u64, u64)> = if exhaustive {
            (0..(1u64 << n.saturating_sub(1)))
                .map(|m| (m, m.wrapping_mul(0x9E37_79B9_7F4A_7C15) >> 20))
                .collect()
        } else {
            (0..4).map(|_| (rng.next(), rng.next() & rng.next())).collect()
        };
        let whole_wrapped = match guarded(|| {
            let mut o = vec![];
            fasta::write_head(&mut o, &head).unwrap();
            fasta::write_wrap_seq(&mut o, &seq, width).unwrap();
            o
        }) {
            Ok(o) => o,
            Err(c) => {
                let mut j = ctx.replay_json(idx);
                j["seq_len"] = json!(seq.len());
                j["width"] = json!(width);
                crate::m_basic::caught_violation(rep, &c, "write_head + write_wrap_seq of the whole sequence", j);
                if ctx.only.is_some() {
                    break;
                }
                idx += 1;
                continue;
            }
        };
        let mut outputs: Vec<Vec<u8>> = vec![];
        for (mask, empties) in &masks {
            let ch = chunks_of(&seq, *mask, *empties);
            if ch.iter().any(|c| c.is_empty()) {
                rep.count("chunkings_with_empty_chunk");
            }
            for (name, wrapped, wfn) in &writers {
                // entry points that ignore the chunking need to run only once per case
                let uses_chunks = name.contains("iter");
                if !uses_chunks && *mask != masks[0].0 {
                    continue;
                }
                rep.evaluations += 1;
                rep.map("entry_point_calls", name);
                if rng.chance(1, 20) {
                    // an attempt that fails in the writer (full disk) comes first: it must leave nothing behind
                    // that shows in the next, successful call
                    let mut bad = Sink::failing(rng.below(head.len() + seq.len() + 2));
                    let _ = guarded(|| wfn(&mut bad, &head, &seq, width, &ch));
                    rep.count("calls_preceded_by_a_failed_write");
                }
                let mut sink = Sink::plain();
                let res = guarded(|| wfn(&mut sink, &head, &seq, width, &ch));
                let out = std::mem::take(&mut sink.out);
                let replay = || {
                    let mut j = ctx.replay_json(idx);
                    j["head"] = json!(show(&head));
                    j["seq"] = json!(show(&seq));
                    j["width"] = json!(width);
                    j["chunks"] = json!(ch.iter().map(|c| show(c)).collect::<Vec<_>>());
                    j["entry_point"] = json!(name);
                    j["output"] = json!(show(&out));
                    j
                };
                match res {
                    Err(c) => {
                        crate::m_basic::caught_violation(rep, &c, name, replay());
                        continue;
                    }
                    Ok(Err(e)) => {
                        rep.violation("write-error", format!("{} failed: {}", name, e), replay());
                        continue;
                    }
                    Ok(Ok(())) => {}
                }
                if *mask == masks[0].0 || rng.chance(1, 4) {
                    // the same call into a writer that does everything `io::Write` permits
                    let mut odd = Sink::odd(rng.next(), *rng.pick(&[1usize, 2, 3, 7, 64]));
                    match guarded(|| wfn(&mut odd, &head, &seq, width, &ch)) {
                        Ok(Ok(())) if odd.out == out => {
                            rep.count("outputs_compared_with_an_odd_writer");
                            rep.add("short_writes_accepted", odd.short_writes as u64);
                        }
                        Ok(Ok(())) => rep.violation(
                            &format!("writer-dependent-{}", name),
                            format!("{}: a writer with short / vectored / interrupted writes received {:?}, a Vec received {:?}", name, show(&odd.out), show(&out)),
                            replay(),
                        ),
                        Ok(Err(e)) => rep.violation("write-error", format!("{} failed on a writer with short writes: {}", name, e), replay()),
                        Err(c) => crate::m_basic::caught_violation(rep, &c, name, replay()),
                    }
                }
                // round trip through the reference model and through the real reader
                let r = ref_fasta(&out);
                let ok_ref = !r.has_err()
                    && r.recs.len() == 1
                    && r.recs[0].head == head
                    && r.recs[0].seq_concat() == seq;
                if !ok_ref {
                    rep.violation(
                        &format!("roundtrip-{}", name),
                        format!("{}: output {:?} does not parse back to head {:?} seq {:?}", name, show(&out), show(&head), show(&seq)),
                        replay(),
                    );
                    continue;
                }
                match parse_fasta_real(&out, 3 + (*mask % 40) as usize) {
                    Ok(v) if v.len() == 1 && v[0].0 == head && v[0].1 == seq => {}
                    other => {
                        rep.violation(
                            &format!("roundtrip-real-{}", name),
                            format!("{}: real reader gives {:?}", name, other.map(|v| v.len())),
                            replay(),
                        );
                    }
                }
                if *wrapped {
                    match seq_lines_of(&out) {
                        None => rep.violation(&format!("wrap-{}", name), "output does not end with LF".into(), replay()),
                        Some(lines) => {
                            let nl = lines.len();
                            let bad = lines.iter().enumerate().any(|(i, l)| {
                                l.len() > width || (i + 1 < nl && l.len() != width)
                            });
                            if bad {
                                rep.violation(
                                    &format!("wrap-{}", name),
                                    format!("{}: line lengths {:?} with width {}", name, lines.iter().map(|l| l.len()).collect::<Vec<_>>(), width),
                                    replay(),
                                );
                            }
                            if !seq.is_empty() && seq.len() % width == 0 {
                                rep.count("wrapped_length_multiple_of_width");
                            }
                        }
                    }
                    if !seq.is_empty() && out != whole_wrapped {
                        rep.violation(
                            &format!("chunking-dependent-{}", name),
                            format!("{}: output {:?} differs from the whole-sequence output {:?}", name, show(&out), show(&whole_wrapped)),
                            replay(),
                        );
                    }
                }
                if outputs.len() < 20 && *mask == masks[0].0 {
                    outputs.push(out);
                }
            }
        }
        if seq.is_empty() {
            rep.count("empty_sequences");
        }
        // many records back to back: concatenate this case's outputs
        if outputs.len() >= 2 {
            let cat: Vec<u8> = outputs.concat();
            let r = ref_fasta(&cat);
            let ok = !r.has_err()
                && r.recs.len() == outputs.len()
                && r.recs.iter().all(|x| x.head == head && x.seq_concat() == seq);
            let real = parse_fasta_real(&cat, 3 + (idx % 50) as usize);
            let ok_real = matches!(&real, Ok(v) if v.len() == outputs.len() && v.iter().all(|x| x.0 == head && x.1 == seq));
            rep.add("back_to_back_records", outputs.len() as u64);
            if !ok || !ok_real {
                let mut j = ctx.replay_json(idx);
                j["concatenated"] = json!(show(&cat));
                rep.violation(
                    "back-to-back",
                    format!("{} records written back to back parse to {} (reference) / {:?} (reader)", outputs.len(), r.recs.len(), real.map(|v| v.len())),
                    j,
                );
            }
        }
        let mut h = Fnv::new();
        h.bytes(&head).bytes(&seq).u64(width as u64).u64(masks.len() as u64);
        rep.nontrivial.insert(h.finish());
        if rep.want_sample() && n > 3 {
            rep.sample(json!({"head": show(&head), "seq": show(&seq), "width": width, "chunkings": masks.len(),
                "wrapped_output": show(&whole_wrapped)}));
        }
        if exhaustive {
            rep.count("exhaustive_cases");
        }
        if ctx.only.is_some() {
            break;
        }
        idx += 1;
    }
    rep.counters.insert("exhaustive_complete".into(), (exh_done && ctx.only.is_none()) as u64);
}

// ---------------------------------------------------------------------------
// C11

fn strip_blank_lines(b: &[u8]) -> Vec<u8> {
    let mut out = vec![];
    for l in b.split_inclusive(|x| *x == b'\n') {
        let content = l.strip_suffix(b"\n").unwrap_or(l);
        if content.is_empty() || content == b"\r" {
            continue;
        }
        out.extend_from_slice(content);
        out.push(b'\n');
    }
    out
}

pub fn c11(ctx: &Ctx, rep: &mut Report) {
    let mut idx = ctx.only.unwrap_or(0);
    loop {
        if ctx.only.is_none() && (ctx.expired() || idx >= ctx.max_cases) {
            break;
        }
        ctx.begin(idx);
        let mut rng = Rng::derive(&[ctx.seed, ctx.shard, idx, 11]);
        if idx % 2 == 0 {
            // --- writing functions round trip
            let k = 1 + rng.below(if ctx.miri { 3 } else { 20 });
            let mut recs = vec![];
            // half of the batches go into a writer with short / vectored / interrupted writes
            let odd_writer = rng.chance(1, 2);
            let mut out = if odd_writer { Sink::odd(rng.next(), *rng.pick(&[1usize, 2, 5, 7, 33, 4096])) } else { Sink::plain() };
            for j in 0..k {
                // a quarter of the records sweep the total size (id + description + sequence + quality)
                // through 0..1300 bytes, one value per case, so that every exact size is hit
                let sweep = j == 0 && idx % 8 < 2;
                let (head, n) = if sweep {
                    let total = ((idx / 8) as usize * 2 + (idx % 8) as usize) % 1300;
                    let id_len = rng.below(total.min(40) + 1);
                    let with_desc = rng.chance(3, 4);
                    let rest = total - id_len;
                    let desc_len = if with_desc { rng.below(rest.min(80) + 1) } else { 0 };
                    let s2 = rest - desc_len;
                    // an odd remainder goes into the description (or the id)
                    let (desc_len, id_len) = if s2 % 2 == 1 {
                        if with_desc { (desc_len + 1, id_len) } else { (desc_len, id_len + 1) }
                    } else {
                        (desc_len, id_len)
                    };
                    let mut h: Vec<u8> = (0..id_len).map(|k| b"abcXYZ019_"[k % 10]).collect();
                    if with_desc {
                        h.push(b' ');
                        h.extend((0..desc_len).map(|k| b"desc text>@+"[k % 12]));
                        while h.last() == Some(&b'\r') {
                            h.pop();
                        }
                    }
                    rep.count("size_sweep_records");
                    (h, s2 / 2)
                } else if !ctx.miri && rng.chance(1, 400) {
                    // a long read among short ones (any position of the batch): beyond any internal
                    // chunk or scratch-buffer size a writer may use
                    rep.count("long_reads_written");
                    let n = match rng.below(4) {
                        0 => 1usize << rng.range(12, 17),
                        1 => (1usize << rng.range(12, 17)) + rng.range(0, 2) - 1,
                        2 => rng.range(4_000, 40_000),
                        _ => rng.range(16_380, 16_390),
                    };
                    (gen_head_domain(&mut rng, 24), n)
                } else {
                    (gen_head_domain(&mut rng, 24), rng.skewed(30))
                };
                let seq: Vec<u8> = (0..n).map(|_| *rng.pick(b"ACGTN@+> ")).collect();
                let qual: Vec<u8> = (0..n).map(|_| b'!' + rng.below(90) as u8).collect();
                let which = rng.below(4);
                if rng.chance(1, 20) {
                    // the same call into a writer that fails after some bytes comes first
                    let mut bad = Sink::failing(rng.below(head.len() + 2 * seq.len() + 6));
                    let _ = guarded(|| match which {
                        0 | 3 => fastq::write_to(&mut bad, &head, &seq, &qual),
                        1 => {
                            let (id, d) = id_desc(&head);
                            fastq::write_parts(&mut bad, id, d, &seq, &qual)
                        }
                        _ => fastq::OwnedRecord {
                            head: head.clone(),
                            seq: seq.clone(),
                            qual: qual.clone(),
                        }
                        .write(&mut bad),
                    });
                    rep.count("calls_preceded_by_a_failed_write");
                }
                let res = guarded(|| match which {
                    0 => fastq::write_to(&mut out, &head, &seq, &qual),
                    1 => {
                        let (id, d) = id_desc(&head);
                        fastq::write_parts(&mut out, id, d, &seq, &qual)
                    }
                    2 => fastq::OwnedRecord {
                        head: head.clone(),
                        seq: seq.clone(),
                        qual: qual.clone(),
                    }
                    .write(&mut out),
                    _ => {
                        let mut tmp = vec![];
                        fastq::write_to(&mut tmp, &head, &seq, &qual)?;
                        let mut rdr = fastq::Reader::new(&tmp[..]);
                        match rdr.next() {
                            Some(Ok(r)) => r.write(&mut out),
                            _ => Err(std::io::Error::new(std::io::ErrorKind::Other, "could not re-read")),
                        }
                    }
                });
                rep.map("entry_point_calls", ["write_to", "write_parts", "OwnedRecord::write", "RefRecord::write"][which]);
                rep.evaluations += 1;
                match res {
                    Ok(Ok(())) => {}
                    Ok(Err(e)) => rep.violation("write-error", format!("{}", e), ctx.replay_json(idx)),
                    Err(c) => crate::m_basic::caught_violation(rep, &c, "fastq write", ctx.replay_json(idx)),
                }
                recs.push((head, seq, qual));
            }
            if odd_writer {
                rep.count("batches_written_into_an_odd_writer");
                rep.add("short_writes_accepted", out.short_writes as u64);
            }
            let out = std::mem::take(&mut out.out);
            let r = ref_fastq(&out);
            let ok = !r.has_err()
                && r.recs.len() == recs.len()
                && r.recs.iter().zip(&recs).all(|(x, y)| x.head == y.0 && x.lines[0] == y.1 && x.qual.as_ref() == Some(&y.2));
            let real = parse_fastq_real(&out, 3 + rng.below(60));
            let ok_real = matches!(&real, Ok(v) if *v == recs);
            rep.add("records_written", recs.len() as u64);
            if !ok || !ok_real {
                let mut j = ctx.replay_json(idx);
                j["output"] = json!(show(&out));
                rep.violation(
                    "fastq-roundtrip",
                    format!("{} records written, reference parses {} (err {:?}), reader {:?}", recs.len(), r.recs.len(), r.err, real.map(|v| v.len())),
                    j,
                );
            }
            let mut h = Fnv::new();
            h.bytes(&out);
            rep.nontrivial.insert(h.finish());
        } else {
            // --- write_unchanged over a well-formed input
            let fmt = if idx % 4 == 1 { Fmt::Fastq } else { Fmt::Fasta };
            let opts = GenOpts {
                max_recs: if ctx.miri { 4 } else { 40 },
                tag: ctx.shard,
                giant: 2,
                ..GenOpts::default()
            };
            let abs = gen::gen_abs(&mut rng, fmt, &opts);
            let mut ro = gen::gen_render_opts(&mut rng, fmt);
            if fmt == Fmt::Fasta && rng.chance(1, 2) {
                ro.leading_blanks = 0;
            }
            let input = gen::render(&abs, &ro);
            let r = fmt.reference(&input);
            let cap = gen::gen_cap(&mut rng, input.len(), &r.recs.iter().map(|x| x.extent()).collect::<Vec<_>>());
            let via_sets = rng.chance(1, 2);
            // half of the set reads ask for an exact number of records
            let exact_n: Option<usize> = if via_sets && rng.chance(1, 2) { Some(1 + rng.below(4)) } else { None };
            rep.map("unchanged_via", if exact_n.is_some() { "record_set_exact" } else if via_sets { "record_set" } else { "next" });
            if matches!(ro.ends, gen::LineEnd::Crlf) {
                rep.count("crlf_inputs");
            }
            if !ro.final_term {
                rep.count("inputs_without_final_terminator");
            }
            let odd_unchanged = (idx / 4) % 2 == 1;
            if odd_unchanged {
                rep.count("unchanged_written_into_an_odd_writer");
                rep.map("unchanged_odd_writer_by_format", fmt.name());
            }
            let mut outs: Vec<Vec<u8>> = vec![];
            let mut owned_fa: Vec<fasta::OwnedRecord> = vec![];
            let res = guarded(|| -> Result<(), String> {
                match fmt {
                    Fmt::Fastq => {
                        let mut rdr = fastq::Reader::with_capacity(&input[..], cap);
                        if via_sets {
                            let mut set = fastq::RecordSet::default();
                            while let Some(x) = rdr.read_record_set_exact(&mut set, exact_n) {
                                x.map_err(|e| e.to_string())?;
                                for rec in &set {
                                    let mut o = if odd_unchanged { Sink::odd(outs.len() as u64 + 11, 1 + outs.len() % 9) } else { Sink::plain() };
                                    rec.write_unchanged(&mut o).unwrap();
                                    outs.push(o.out);
                                }
                            }
                        } else {
                            while let Some(x) = rdr.next() {
                                let rec = x.map_err(|e| e.to_string())?;
                                let mut o = if odd_unchanged { Sink::odd(outs.len() as u64 + 11, 1 + outs.len() % 9) } else { Sink::plain() };
                                rec.write_unchanged(&mut o).unwrap();
                                outs.push(o.out);
                            }
                        }
                    }
                    Fmt::Fasta => {
                        let mut rdr = fasta::Reader::with_capacity(&input[..], cap);
                        if via_sets {
                            let mut set = fasta::RecordSet::default();
                            while let Some(x) = rdr.read_record_set_exact(&mut set, exact_n) {
                                x.map_err(|e| e.to_string())?;
                                for rec in &set {
                                    let mut o = if odd_unchanged { Sink::odd(outs.len() as u64 + 11, 1 + outs.len() % 9) } else { Sink::plain() };
                                    rec.write_unchanged(&mut o).unwrap();
                                    outs.push(o.out);
                                    owned_fa.push(rec.to_owned_record());
                                }
                            }
                        } else {
                            while let Some(x) = rdr.next() {
                                let rec = x.map_err(|e| e.to_string())?;
                                let mut o = if odd_unchanged { Sink::odd(outs.len() as u64 + 11, 1 + outs.len() % 9) } else { Sink::plain() };
                                rec.write_unchanged(&mut o).unwrap();
                                outs.push(o.out);
                                owned_fa.push(rec.to_owned_record());
                            }
                        }
                    }
                }
                Ok(())
            });
            rep.evaluations += 1;
            let replay = || {
                let mut j = ctx.replay_json(idx);
                j["input"] = json!(show(&input));
                j["input_hex"] = json!(gen::hex_limited(&input));
                j["capacity"] = json!(cap);
                j["via_sets"] = json!(via_sets);
                j["exact_n"] = json!(exact_n);
                j
            };
            match res {
                Err(c) => {
                    crate::m_basic::caught_violation(rep, &c, "write_unchanged", replay());
                }
                Ok(Err(e)) => {
                    rep.count("reader_error_other_property");
                    rep.notes.push(format!("reader error on a well-formed input (C01/C02 business): {}", e));
                }
                Ok(Ok(())) => {
                    if outs.len() != r.recs.len() {
                        rep.count("record_count_differs_other_property");
                    } else {
                        rep.add("records_compared", outs.len() as u64);
                        for (i, (o, rr)) in outs.iter().zip(&r.recs).enumerate() {
                            rep.add("bytes_compared", o.len() as u64);
                            match fmt {
                                Fmt::Fastq => {
                                    if *o != rr.unchanged {
                                        rep.violation(
                                            "fastq-unchanged-bytes",
                                            format!("record {}: wrote {:?}, original bytes {:?}", i, show(o), show(&rr.unchanged)),
                                            replay(),
                                        );
                                        break;
                                    }
                                }
                                Fmt::Fasta => {
                                    let orig = &input[rr.byte as usize..rr.end];
                                    let same = strip_blank_lines(o) == strip_blank_lines(orig);
                                    let reparsed = parse_fasta_real(o, 65536);
                                    let ok2 = matches!(&reparsed, Ok(v) if v.len() == 1 && v[0].0 == owned_fa[i].head && v[0].1 == owned_fa[i].seq);
                                    if !same || !ok2 || o.last() != Some(&b'\n') {
                                        rep.violation(
                                            "fasta-unchanged-bytes",
                                            format!("record {}: wrote {:?}, original range {:?}", i, show(o), show(orig)),
                                            replay(),
                                        );
                                        break;
                                    }
                                }
                            }
                        }
                        if fmt == Fmt::Fastq {
                            // concatenation = input with final terminator added and trailing blank lines dropped
                            let cat = outs.concat();
                            let end = r.recs.last().map_or(0, |x| x.end);
                            let mut want = input[..end].to_vec();
                            // the last line of the last record may lack its terminator (it may even be empty)
                            if r.recs.last().map_or(false, |x| x.unchanged.len() != x.extent()) {
                                want.push(b'\n');
                            }
                            if cat != want {
                                rep.violation(
                                    "fastq-unchanged-concat",
                                    format!("concatenation {:?} differs from the input {:?}", show(&cat), show(&want)),
                                    replay(),
                                );
                            }
                        }
                    }
                }
            }
            if !r.recs.is_empty() {
                let mut h = Fnv::new();
                h.bytes(&input).u64(cap as u64).u64(via_sets as u64);
                rep.nontrivial.insert(h.finish());
                if rep.want_sample() && input.len() < 160 {
                    rep.sample(json!({"format": fmt.name(), "input": show(&input), "capacity": cap, "via_sets": via_sets,
                        "first_output": outs.first().map(|o| show(o))}));
                }
            }
        }
        if ctx.only.is_some() {
            break;
        }
        idx += 1;
    }
}
