//! Sequential monitors: `mon <ID> [--tier quick|thorough] [--seed N] [--shard i/n]
//! [--budget-s S] [--cases N] [--only IDX] [--verbose]`
//! Prints one line `VERIF-REPORT {json}`.

use seqio_verif::report::Report;
use seqio_verif::seqmon::Ctx;
use seqio_verif::{m_basic, m_hist, m_misc, m_write};
use std::time::{Duration, Instant};

#[global_allocator]
static ALLOC: seqio_verif::alloc::Counting = seqio_verif::alloc::Counting;

fn main() {
    let args: Vec<String> = std::env::args().collect();
    if args.len() < 2 {
        eprintln!("usage: mon <ID> [options]");
        std::process::exit(3);
    }
    let prop = args[1].clone();
    let mut tier_thorough = false;
    let mut seed = 1u64;
    let mut shard = 0u64;
    let mut nshards = 1u64;
    let mut budget = 10.0f64;
    let mut cases = u64::MAX;
    let mut only = None;
    let mut verbose = false;
    let mut i = 2;
    while i < args.len() {
        let val = |i: usize| args.get(i + 1).cloned().unwrap_or_default();
        match args[i].as_str() {
            "--tier" => {
                tier_thorough = val(i) == "thorough";
                i += 1;
            }
            "--seed" => {
                seed = val(i).parse().unwrap_or(1);
                i += 1;
            }
            "--shard" => {
                let v = val(i);
                let mut p = v.split('/');
                shard = p.next().unwrap().parse().unwrap();
                nshards = p.next().unwrap().parse().unwrap();
                i += 1;
            }
            "--budget-s" => {
                budget = val(i).parse().unwrap_or(10.0);
                i += 1;
            }
            "--cases" => {
                cases = val(i).parse().unwrap_or(u64::MAX);
                i += 1;
            }
            "--only" => {
                only = val(i).parse().ok();
                i += 1;
            }
            "--verbose" => verbose = true,
            other => {
                eprintln!("unknown option {}", other);
                std::process::exit(3);
            }
        }
        i += 1;
    }
    let ctx = Ctx {
        prop: prop.clone(),
        tier_thorough,
        seed,
        shard,
        nshards,
        deadline: Instant::now() + Duration::from_secs_f64(budget),
        max_cases: cases,
        only,
        verbose,
        miri: cfg!(miri),
    };
    let mut rep = Report::new(&prop);
    if only.is_some() {
        rep.max_samples = 0;
    }
    let t0 = Instant::now();
    let stuck_limit = std::env::var("VERIF_STUCK_LIMIT_S").ok().and_then(|v| v.parse().ok()).unwrap_or(60u64);
    seqio_verif::seqmon::start_stuck_monitor(ctx.replay_json(0), prop.clone(), stuck_limit);
    match prop.as_str() {
        "C01" => m_basic::c01(&ctx, &mut rep),
        "C02" => m_basic::c02(&ctx, &mut rep),
        "C03" => m_basic::c03(&ctx, &mut rep),
        "C04" => m_hist::c04(&ctx, &mut rep),
        "C05" => m_hist::c05(&ctx, &mut rep),
        "C06" => m_hist::c06(&ctx, &mut rep),
        "C09" => m_hist::c09(&ctx, &mut rep),
        "C10" => m_write::c10(&ctx, &mut rep),
        "C11" => m_write::c11(&ctx, &mut rep),
        "C12" => m_misc::c12(&ctx, &mut rep),
        "C13" => m_misc::c13(&ctx, &mut rep),
        "C14" => m_hist::c14(&ctx, &mut rep),
        "C17" => m_basic::c17(&ctx, &mut rep),
        "C18" => m_misc::c18(&ctx, &mut rep),
        "C19" => m_misc::c19(&ctx, &mut rep),
        "C20" => m_misc::c20(&ctx, &mut rep),
        _ => {
            eprintln!("unknown property {}", prop);
            std::process::exit(3);
        }
    }
    rep.counters
        .insert("shard_wall_ms".into(), t0.elapsed().as_millis() as u64);
    rep.print();
}
