//! Pipeline monitors: `par <C07|C08|C15|C16> [--tier ..] [--seed N] [--shard i/n]
//! [--budget-s S] [--cases N] [--only IDX]`. Prints one line `VERIF-REPORT {json}`.

use seqio_verif::pipe::{self, *};
use seqio_verif::report::{guarded, panic_sig, Caught, Report};
use seqio_verif::rng::{Fnv, Rng};
use seqio_verif::seqmon::Ctx;
use serde_json::json;
use std::collections::HashSet;
use std::sync::atomic::Ordering;
use std::sync::mpsc;
use std::time::{Duration, Instant};

#[global_allocator]
static ALLOC: seqio_verif::alloc::Counting = seqio_verif::alloc::Counting;

enum Job {
    Mock(Scenario),
    Real(RealScenario),
}

enum Done {
    Mock(MockResult, Vec<Entry>),
    Real(RealResult, Vec<Entry>),
}

enum Outcome {
    Returned(Done),
    Panicked(String),
    /// all threads asleep, no CPU time, no events: definite
    Deadlock(String),
    /// watchdog fired but threads were still runnable
    Stalled(String),
}

fn execute(job: &Job) -> Result<Done, Caught> {
    guarded(|| match job {
        Job::Mock(sc) => {
            let r = run_mock(sc);
            Done::Mock(r, take_log())
        }
        Job::Real(sc) => {
            let r = run_real(sc);
            Done::Real(r, take_log())
        }
    })
}

fn run_job(job: Job, miri: bool) -> (Job, Outcome, usize) {
    let _ = take_log();
    if miri {
        // Miri detects deadlocks itself ("the evaluated program deadlocked")
        let out = match execute(&job) {
            Ok(d) => Outcome::Returned(d),
            Err(Caught::Panic(m)) | Err(Caught::Budget(m)) => Outcome::Panicked(m),
        };
        return (job, out, 0);
    }
    // helper threads that a runtime starts lazily at the first thread creation (ThreadSanitizer's
    // background thread) must exist before the first baseline is taken
    static WARM: std::sync::Once = std::sync::Once::new();
    WARM.call_once(|| {
        let _ = std::thread::spawn(|| {}).join();
        std::thread::sleep(Duration::from_millis(50));
    });
    let baseline = thread_count();
    let (tx, rx) = mpsc::channel();
    let handle = std::thread::Builder::new()
        .name("scenario".into())
        .spawn(move || {
            let r = execute(&job);
            let _ = tx.send(());
            (job, r)
        })
        .expect("spawn");
    let t0 = Instant::now();
    let mut verdict = None;
    loop {
        match rx.recv_timeout(Duration::from_secs(5)) {
            Ok(()) => break,
            Err(mpsc::RecvTimeoutError::Disconnected) => break,
            Err(mpsc::RecvTimeoutError::Timeout) => {
                // no answer for 5 s: is anything still moving?
                let mut quiet = true;
                let mut last_ev = events_total();
                let mut last_cpu: u64 = thread_states().iter().map(|s| s.1).sum();
                for _ in 0..3 {
                    std::thread::sleep(Duration::from_millis(300));
                    let st = thread_states();
                    let cpu: u64 = st.iter().map(|s| s.1).sum();
                    let ev = events_total();
                    // the sampling thread itself is running; every other thread must sleep
                    let running = st.iter().filter(|s| s.0 == 'R').count();
                    if running > 1 || cpu > last_cpu + 1 || ev != last_ev {
                        quiet = false;
                    }
                    // a stall the harness itself is making (or has just ended) is not a deadlock
                    let pu = pipe::PAUSE_UNTIL_MS.load(Ordering::SeqCst);
                    if pu != 0 && pipe::now_ms() < pu + 1500 {
                        quiet = false;
                    }
                    last_cpu = cpu;
                    last_ev = ev;
                }
                if quiet {
                    verdict = Some(true);
                    break;
                }
                if t0.elapsed() > Duration::from_secs(90) {
                    verdict = Some(false);
                    break;
                }
            }
        }
    }
    if let Some(dead) = verdict {
        let tail: Vec<String> = take_log().iter().rev().take(25).map(|e| format!("t{} {:?}", e.thread, e.ev)).collect();
        let msg = format!(
            "no progress after {:.1} s; thread states {:?}; last events (newest first): {:?}",
            t0.elapsed().as_secs_f64(),
            thread_states().iter().map(|s| s.0).collect::<String>(),
            tail
        );
        // the scenario thread cannot be joined; the caller reports and exits the process.
        // The job moved into the thread, so a placeholder is returned.
        let placeholder = Job::Mock(Scenario {
            threads: 0,
            queue: 0,
            sizes: Sizes::List(vec![]),
            err_at: None,
            consumer: Consumer::Drain,
            init_fail: InitFail::None,
            delay: Delay::None,
            delay_seed: 0,
            delay_scale_us: 0,
            delay_target: 0,
            ask_again: 0,
            nested: false,
        });
        return (placeholder, if dead { Outcome::Deadlock(msg) } else { Outcome::Stalled(msg) }, 0);
    }
    let (job, r) = handle.join().expect("scenario thread");
    let out = match r {
        Ok(d) => Outcome::Returned(d),
        Err(Caught::Panic(m)) | Err(Caught::Budget(m)) => Outcome::Panicked(m),
    };
    // threads of the pipeline must be gone (they exit asynchronously: poll). A thread that
    // still exists after 5 s while every thread but this one sleeps (three samples) is blocked;
    // threads that are merely waiting for a CPU on a loaded machine are runnable, not asleep.
    let mut extra = 0;
    let t1 = Instant::now();
    loop {
        let n = thread_count();
        if n <= baseline {
            break;
        }
        if t1.elapsed() > Duration::from_secs(5) {
            let mut blocked = true;
            for _ in 0..3 {
                std::thread::sleep(Duration::from_millis(300));
                let st = thread_states();
                if thread_count() <= baseline || st.iter().filter(|s| s.0 == 'R').count() > 1 {
                    blocked = false;
                    break;
                }
            }
            if blocked {
                extra = thread_count().saturating_sub(baseline);
            }
            break;
        }
        std::thread::sleep(Duration::from_micros(200));
    }
    (job, out, extra)
}

struct Acc {
    fingerprints: HashSet<u64>,
}

fn handle(
    ctx: &Ctx,
    idx: u64,
    rep: &mut Report,
    acc: &mut Acc,
    job: Job,
    desc: serde_json::Value,
    class: String,
) -> bool {
    rep.evaluations += 1;
    let (job, out, extra_threads) = run_job(job, ctx.miri);
    let replay = |more: serde_json::Value| {
        let mut j = ctx.replay_json(idx);
        j["scenario"] = desc.clone();
        j["detail"] = more;
        j
    };
    let prop: &str = &ctx.prop.clone();
    match out {
        Outcome::Deadlock(m) => {
            rep.map("class_x_outcome", &format!("{}:deadlock", class));
            if prop == "C08" || prop == "C15" {
                rep.violation("deadlock", format!("the call does not return: {}", m), replay(json!(null)));
            } else {
                rep.inconclusive.push(format!("scenario {} hung (C08's business): {}", idx, &m[..m.len().min(300)]));
            }
            return false; // the process cannot continue
        }
        Outcome::Stalled(m) => {
            rep.map("class_x_outcome", &format!("{}:watchdog-inconclusive", class));
            rep.inconclusive.push(format!("scenario {}: watchdog fired with runnable threads: {}", idx, &m[..m.len().min(300)]));
            return false;
        }
        Outcome::Panicked(m) => {
            rep.map("class_x_outcome", &format!("{}:panic", class));
            rep.violation(&panic_sig(&m), format!("the call panicked: {}", m), replay(json!(null)));
        }
        Outcome::Returned(done) => {
            rep.map("class_x_outcome", &format!("{}:returned", class));
            let mut findings = vec![];
            match (&job, &done) {
                (Job::Mock(sc), Done::Mock(res, entries)) => {
                    let facts = check_mock(sc, res, entries, &mut findings);
                    acc.fingerprints.insert(facts.fingerprint);
                    rep.add("boundary_events", facts.n_events as u64);
                    rep.add("out_of_order_arrivals", facts.out_of_order as u64);
                    rep.max("max_sets_in_flight", facts.max_in_flight as u64);
                    rep.max(&format!("max_lead_queue_{}", sc.queue), facts.max_lead as u64);
                    rep.max("max_reuse_of_one_data_set", facts.reuse_max as u64);
                    rep.max("max_data_sets_created", facts.tags_created as u64);
                    if facts.max_lead == sc.queue {
                        rep.count("runs_where_lead_reached_queue_length");
                    }
                    if facts.max_work_overlap >= 2 {
                        rep.count("runs_with_overlapping_work_calls");
                    }
                    if sc.consumer == Consumer::Slow && sc.init_fail == InitFail::None && sc.err_at.is_none() && sc.sizes.len() >= 3 * (sc.queue + 1) {
                        rep.count("slow_consumer_runs_longer_than_3x_queue");
                    }
                    if facts.err_with_sets_in_flight {
                        rep.count("runs_where_reader_failed_with_sets_in_flight");
                    }
                    if facts.err_overtook_results {
                        rep.count("runs_where_error_overtook_results");
                    }
                    if let Ok(seen) = &res.ret {
                        rep.add("sets_received", seen.sets.len() as u64);
                        if seen.end_seen {
                            rep.count("runs_drained_to_end_marker");
                        }
                        rep.add("calls_of_next_after_the_end_marker", seen.asked_after_end as u64);
                        rep.add("nested_parallel_calls_inside_a_consumer", seen.nested_calls as u64);
                        if !seen.errs.is_empty() {
                            rep.count("runs_with_error_received");
                        }
                    } else {
                        rep.count("runs_returning_init_error");
                    }
                    rep.map("dataset_init_calls_minus_queue", &format!("{}", res.dataset_inits as i64 - sc.queue as i64));
                    rep.map("delay_profile", sc.delay.name());
                    if sc.delay == Delay::TargetPoint {
                        rep.map("targeted_hook_point", &sc.delay_target.to_string());
                    }
                    rep.map("threads", &sc.threads.to_string());
                    rep.map("queue", &sc.queue.to_string());
                    if sc.queue >= 1000 {
                        rep.map("giant_queue_x_sets", &format!("queue>=1000:{}", if sc.sizes.len() > sc.queue { "more-sets-than-slots" } else if sc.sizes.len() > 1024 { "over-1024-sets" } else { "few-sets" }));
                    }
                    if rep.want_sample() && entries.len() > 20 && entries.len() < 400 {
                        rep.sample(json!({"scenario": sc.describe(),
                            "log_head": entries.iter().take(40).map(|e| format!("t{} {:?}", e.thread, e.ev)).collect::<Vec<_>>(),
                            "events": entries.len()}));
                    }
                }
                (Job::Real(sc), Done::Real(res, entries)) => {
                    check_real(sc, res, &mut findings);
                    let mut fp = Fnv::new();
                    for e in entries {
                        if let Ev::Point(p) = &e.ev {
                            fp.u64(*p as u64);
                        }
                    }
                    acc.fingerprints.insert(fp.finish());
                    rep.add("boundary_events", entries.len() as u64);
                    rep.add("records_received", res.seen.recs.len() as u64);
                    rep.add("recycled_output_vec_longer", res.seen.recycled_longer as u64);
                    rep.add("recycled_output_vec_shorter", res.seen.recycled_shorter as u64);
                    rep.map("api", &format!("{:?}:{}", sc.api, sc.fmt.name()));
                    rep.map("delay_profile", sc.delay.name());
                    if res.ret.is_err() {
                        rep.count("real_runs_returning_error");
                        if sc.io_fault.is_some() {
                            rep.count("real_runs_with_a_source_fault_returning_error");
                        }
                    }
                    let idv: Vec<usize> = res.seen.recs.iter().filter_map(|r| r.0).collect();
                    rep.add("out_of_order_arrivals", idv.windows(2).filter(|w| w[1] < w[0]).count() as u64);
                    if rep.want_sample() && sc.input.len() < 400 && !res.seen.recs.is_empty() {
                        rep.sample(json!({"scenario": sc.describe(), "arrival_order": idv, "result": format!("{:?}", res.ret)}));
                    }
                }
                _ => {}
            }
            if extra_threads > 0 {
                findings.push(Finding {
                    prop: "C08",
                    sig: "threads-left-blocked".into(),
                    what: format!("{} threads still exist and sleep more than 5 s after the call returned", extra_threads),
                });
            }
            for f in findings {
                if f.prop == prop {
                    rep.violation(&f.sig, f.what, replay(json!(null)));
                } else {
                    rep.map("deviations_of_other_properties", &format!("{}:{}", f.prop, f.sig));
                }
            }
        }
    }
    let mut h = Fnv::new();
    h.bytes(desc.to_string().as_bytes());
    rep.nontrivial.insert(h.finish());
    true
}

/// restricts a generated scenario to what a property's workload contains
fn shape_mock(prop: &str, rng: &mut Rng, idx: u64, sc: &mut Scenario) {
    match prop {
        "C07" => {
            sc.init_fail = InitFail::None;
            sc.err_at = None;
            if !matches!(sc.consumer, Consumer::Slow) && idx % 5 != 0 {
                sc.consumer = Consumer::Drain;
            }
        }
        "C16" => {
            sc.init_fail = InitFail::None;
            if idx % 3 != 0 {
                sc.err_at = None;
            }
            sc.consumer = *rng.pick(&[Consumer::Drain, Consumer::Slow, Consumer::Slow, Consumer::StopAfter(3)]);
        }
        "C15" => {
            // systematic grid: error at every index / each initialiser at each call, cycling with idx
            let n = sc.sizes.len();
            match idx % 4 {
                0 | 1 => {
                    sc.init_fail = InitFail::None;
                    sc.err_at = Some((idx / 4) as usize % (n + 1));
                    if idx % 8 < 6 {
                        sc.consumer = Consumer::Drain;
                    }
                }
                2 => {
                    sc.init_fail = InitFail::Dataset((idx / 4) as usize % (sc.queue + 1));
                }
                _ => {
                    sc.init_fail = InitFail::Reader;
                }
            }
        }
        _ => {
            // C08: consumer stops after k for every k, errors at every index, init failures
            let n = sc.sizes.len();
            match idx % 6 {
                0 => sc.consumer = Consumer::StopAfter((idx / 6) as usize % (n + 2)),
                1 => sc.err_at = Some((idx / 6) as usize % (n + 1)),
                2 => sc.init_fail = InitFail::Dataset((idx / 6) as usize % (sc.queue + 1)),
                3 => sc.init_fail = if idx % 12 == 3 { InitFail::Reader } else { InitFail::None },
                _ => {}
            }
        }
    }
}

fn main() {
    let args: Vec<String> = std::env::args().collect();
    if args.len() < 2 {
        eprintln!("usage: par <ID> [options]");
        std::process::exit(3);
    }
    let prop = args[1].clone();
    let mut tier_thorough = false;
    let mut seed = 1u64;
    let mut shard = 0u64;
    let mut nshards = 1u64;
    let mut budget = 10.0f64;
    let mut cases = u64::MAX;
    let mut only = None;
    let mut verbose = false;
    let mut mode = String::new();
    let mut repeat = 1u64;
    let mut i = 2;
    while i < args.len() {
        let val = |i: usize| args.get(i + 1).cloned().unwrap_or_default();
        match args[i].as_str() {
            "--tier" => {
                tier_thorough = val(i) == "thorough";
                i += 1;
            }
            "--seed" => {
                seed = val(i).parse().unwrap_or(1);
                i += 1;
            }
            "--shard" => {
                let v = val(i);
                let mut p = v.split('/');
                shard = p.next().unwrap().parse().unwrap();
                nshards = p.next().unwrap().parse().unwrap();
                i += 1;
            }
            "--budget-s" => {
                budget = val(i).parse().unwrap_or(10.0);
                i += 1;
            }
            "--cases" => {
                cases = val(i).parse().unwrap_or(u64::MAX);
                i += 1;
            }
            "--only" => {
                only = val(i).parse().ok();
                i += 1;
            }
            "--mode" => {
                mode = val(i);
                i += 1;
            }
            "--repeat" => {
                repeat = val(i).parse().unwrap_or(1);
                i += 1;
            }
            "--verbose" => verbose = true,
            other => {
                eprintln!("unknown option {}", other);
                std::process::exit(3);
            }
        }
        i += 1;
    }
    if !matches!(prop.as_str(), "C07" | "C08" | "C15" | "C16") {
        eprintln!("unknown property {}", prop);
        std::process::exit(3);
    }
    let ctx = Ctx {
        prop: prop.clone(),
        tier_thorough,
        seed,
        shard,
        nshards,
        deadline: Instant::now() + Duration::from_secs_f64(budget),
        max_cases: cases,
        only,
        verbose,
        miri: cfg!(miri),
    };
    seqio_verif::report::set_global_quiet(true);
    let mut rep = Report::new(&prop);
    if only.is_some() {
        rep.max_samples = 0;
    }
    let t0 = Instant::now();
    let mut acc = Acc {
        fingerprints: HashSet::new(),
    };
    if mode == "memory" {
        memory_mode(&ctx, &mut rep);
    } else {
        let mut idx = only.unwrap_or(0);
        loop {
            if only.is_none() && (ctx.expired() || idx >= ctx.max_cases) {
                break;
            }
            seqio_verif::seqmon::trace_case(idx);
            let mut rng = Rng::derive(&[seed, shard, idx, 70]);
            if prop == "C07" && !ctx.miri && idx == 6 {
                // once per shard: a per-record function whose record data are 16 KiB each, over batches whose
                // record count goes down and up by less than a factor of two
                let fastq = shard % 2 == 1;
                let threads = 1 + (shard / 2 % 4) as u32;
                let queue = 1 + (shard / 8) as usize;
                rep.evaluations += 1;
                let mut j = ctx.replay_json(idx);
                j["scenario"] = json!({"api": if fastq { "parallel_fastq" } else { "parallel_fasta" }, "record_data_bytes": 16384, "threads": threads, "queue": queue});
                match guarded(|| pipe::run_bigdata_records(fastq, threads, queue, shard)) {
                    Err(Caught::Panic(m)) | Err(Caught::Budget(m)) => rep.violation(&panic_sig(&m), format!("the per-record function panicked: {}", m), j),
                    Ok(Err(e)) => rep.violation("spurious-error", format!("error on a well-formed input: {}", e), j),
                    Ok(Ok((n, got))) => {
                        rep.count("runs_with_16k_record_data");
                        let mut ids: Vec<usize> = got.iter().map(|g| g.0).collect();
                        ids.sort();
                        if ids != (0..n).collect::<Vec<usize>>() {
                            let missing = (0..n).find(|i| ids.binary_search(i).is_err());
                            rep.violation("lost-record", format!("{} records in the input, {} reached the consumer function (first missing: {:?})", n, ids.len(), missing), j.clone());
                        }
                        if got.iter().any(|g| !g.1) {
                            rep.violation("foreign-result", "a record arrived with record data that were not computed for it".into(), j);
                        }
                    }
                }
                if only.is_some() {
                    break;
                }
                idx += 1;
                continue;
            }
            if (prop == "C07" || prop == "C16") && idx % 40 == 10 && only.map_or(true, |o| o == idx) {
                // the generic per-record function over a user-defined reader whose data sets have an
                // iterator with a legal but inexact size_hint
                let threads = 1 + rng.below(if ctx.miri { 2 } else { 6 }) as u32;
                let queue = 1 + rng.below(4);
                let nsets = rng.below(if ctx.miri { 4 } else { 30 });
                let sizes: Vec<usize> = (0..nsets).map(|_| if rng.chance(1, 5) { 0 } else { rng.below(12) }).collect();
                let hint_mode = rng.below(4) as u8;
                rep.evaluations += 1;
                let mut j = ctx.replay_json(idx);
                j["scenario"] = json!({"api": "parallel_records over a user-defined reader", "threads": threads, "queue": queue, "sizes": sizes, "size_hint_mode": hint_mode});
                match guarded(|| pipe::run_item_records(threads, queue, sizes.clone(), hint_mode)) {
                    Err(Caught::Panic(m)) | Err(Caught::Budget(m)) => rep.violation(&panic_sig(&m), format!("parallel_records panicked: {}", m), j),
                    Ok(Err(e)) => rep.violation("spurious-error", format!("parallel_records returned an error the reader never raised: {}", e), j),
                    Ok(Ok((got, total))) => {
                        rep.count("custom_reader_runs_of_parallel_records");
                        rep.map("custom_reader_size_hint_mode", &hint_mode.to_string());
                        let mut items: Vec<u64> = got.iter().map(|g| g.0).collect();
                        items.sort();
                        if prop == "C07" {
                            if items != (0..total).collect::<Vec<u64>>() {
                                rep.violation("lost-record", format!("the reader produced {} records, the consumer function saw {} ({:?} ...)", total, items.len(), &items[..items.len().min(20)]), j.clone());
                            }
                            if got.iter().any(|(i, o)| *o != i.wrapping_mul(3).wrapping_add(1)) {
                                rep.violation("foreign-result", "a record arrived with an output that is not its own".into(), j.clone());
                            }
                            if threads == 1 && got.windows(2).any(|w| w[1].0 < w[0].0) {
                                rep.violation("order-single-worker", "records out of order with one worker".into(), j);
                            }
                        }
                    }
                }
                if only.is_some() {
                    break;
                }
                idx += 1;
                continue;
            }
            // two thirds mock reader (tagged sets), one third real readers
            let use_real = idx % 3 == 2;
            let long = !ctx.miri && idx % 400 == 7;
            let cont = if use_real {
                let mut sc = gen_real(&mut rng, ctx.miri, shard, long && prop != "C15");
                match prop.as_str() {
                    "C07" => {
                        sc.init_fail = RealInitFail::None;
                        sc.io_fault = None;
                        if sc.has_error {
                            // error-free inputs only: regenerate without the invalid record
                            let mut r2 = Rng::derive(&[seed, shard, idx, 71]);
                            loop {
                                sc = gen_real(&mut r2, ctx.miri, shard, false);
                                sc.init_fail = RealInitFail::None;
                                sc.io_fault = None;
                                if !sc.has_error {
                                    break;
                                }
                            }
                        }
                        if idx % 4 != 0 {
                            sc.stop_after = None;
                        }
                    }
                    "C16" => {
                        sc.init_fail = RealInitFail::None;
                        sc.io_fault = None;
                    }
                    _ => {}
                }
                let class = format!(
                    "real:{}{}{}",
                    if sc.stop_after.is_some() { "stop-after-k" } else { "drain" },
                    if sc.has_error { "/parse-error" } else { "" },
                    if sc.init_fail != RealInitFail::None { "/init-fails" } else { "" }
                );
                let d = sc.describe();
                handle(&ctx, idx, &mut rep, &mut acc, Job::Real(sc), d, class)
            } else {
                let mut sc = gen_scenario_t(&mut rng, ctx.miri, long, ctx.tier_thorough);
                // once per shard (C07): a stall of seconds instead of micro- or milliseconds - the consumer
                // does nothing for a while, or one work call takes that long with everything queued behind it.
                // Nothing may be lost or cut short because somebody is slow.
                let long_stall = prop == "C07" && !ctx.miri && idx == 3;
                if long_stall {
                    pipe::LONG_STALL_MS.store(if ctx.tier_thorough { 12_000 } else { 6_000 }, Ordering::SeqCst);
                    sc.sizes = Sizes::Const(2, 24);
                    sc.err_at = None;
                    sc.init_fail = InitFail::None;
                    sc.ask_again = 0;
                    if shard % 2 == 0 {
                        sc.threads = 1 + (shard / 2 % 3) as u32;
                        sc.queue = 1 + (shard / 6 % 3) as usize;
                        sc.consumer = Consumer::PauseAfter(1 + (shard % 3) as usize);
                        sc.delay = Delay::None;
                    } else {
                        sc.threads = 1 + (shard / 2 % 2) as u32;
                        sc.queue = 1;
                        sc.consumer = Consumer::Drain;
                        sc.delay = Delay::StallOne;
                        sc.delay_target = 1 + (shard % 3) as usize;
                    }
                    rep.count("scenarios_with_a_stall_of_seconds");
                }
                // index among the mock scenarios (every third scenario uses a real reader), so that
                // the systematic cycling in shape_mock visits every residue
                let mock_idx = idx - idx / 3;
                if !long_stall {
                    shape_mock(&prop, &mut rng, mock_idx, &mut sc);
                }
                let class = sc.class();
                let d = sc.describe();
                let c = handle(&ctx, idx, &mut rep, &mut acc, Job::Mock(sc), d, class);
                pipe::LONG_STALL_MS.store(0, Ordering::SeqCst);
                if long_stall {
                    // (a replay repeats a scenario until the schedule shows the violation again; not this one)
                    repeat = repeat.min(2);
                }
                c
            };
            if only.is_some() {
                // replay: the scenario is fixed, the OS schedule is not - repeat until it shows again
                repeat = repeat.saturating_sub(1);
                if !cont || repeat == 0 || rep.n_violations > 0 {
                    break;
                }
                continue;
            }
            if !cont {
                break;
            }
            idx += 1;
        }
    }
    rep.counters.insert("distinct_interleaving_fingerprints".into(), acc.fingerprints.len() as u64);
    rep.counters.insert("shard_wall_ms".into(), t0.elapsed().as_millis() as u64);
    rep.print();
    // a hung scenario thread must not keep the process alive
    std::process::exit(0);
}

/// C16: peak live heap bytes must not depend on the number of batches
fn memory_mode(ctx: &Ctx, rep: &mut Report) {
    let mut rng = Rng::derive(&[ctx.seed, ctx.shard, 0, 72]);
    let threads = 1 + rng.below(8) as u32;
    let queue = 1 + rng.below(4);
    let size = 20 + rng.below(200);
    let n_small = if ctx.tier_thorough { 1000 } else { 50 };
    let real = ctx.shard % 2 == 1;
    let consumer = *rng.pick(&[Consumer::Drain, Consumer::Slow, Consumer::Slow]);
    let mut peaks = vec![];
    pipe::LOG_ON.store(false, Ordering::SeqCst);
    pipe::LEAN.store(true, Ordering::SeqCst);
    for mult in [1usize, 20] {
        let n = n_small * mult;
        let job = if real {
            let mut r2 = Rng::derive(&[ctx.seed, ctx.shard, 1, 72]);
            let mut sc = gen_real(&mut r2, false, ctx.shard, false);
            sc.io_fault = None;
            // n * 10 records of similar size; FASTA with 1-6 sequence lines per record
            let fasta = ctx.shard % 4 == 3;
            let mut input = vec![];
            for i in 0..n * 10 {
                let l = 10 + (i * 7) % 40;
                if fasta {
                    input.extend_from_slice(format!(">r{}_{}\n", ctx.shard, i).as_bytes());
                    let nl = 1 + (i * 5 + i / 7) % 6;
                    for j in 0..nl {
                        input.extend((0..l / nl + 1).map(|k| b"ACGT"[(k + j) % 4]));
                        input.push(b'\n');
                    }
                } else {
                    input.extend_from_slice(format!("@r{}_{}\n", ctx.shard, i).as_bytes());
                    input.extend((0..l).map(|k| b"ACGT"[k % 4]));
                    input.extend_from_slice(b"\n+\n");
                    input.extend((0..l).map(|_| b'I'));
                    input.push(b'\n');
                }
            }
            sc.fmt = if fasta { seqio_verif::refmodel::Fmt::Fasta } else { seqio_verif::refmodel::Fmt::Fastq };
            sc.input = std::sync::Arc::new(input);
            sc.n_valid = n * 10;
            sc.has_error = false;
            sc.cap = 1024;
            sc.chunk = 100_000;
            sc.threads = threads;
            sc.queue = queue;
            sc.api = [Api::PerRecordInit, Api::PerRecord, Api::ReadParallel, Api::ParallelRecords][((ctx.shard / 4 + ctx.seed) % 4) as usize];
            sc.stop_after = None;
            sc.init_fail = RealInitFail::None;
            sc.delay = Delay::SlowConsumer;
            sc.delay_scale_us = 2;
            Job::Real(sc)
        } else {
            Job::Mock(Scenario {
                threads,
                queue,
                sizes: Sizes::Const(size, n),
                err_at: None,
                consumer,
                init_fail: InitFail::None,
                delay: Delay::SlowConsumer,
                delay_seed: rng.next(),
                delay_scale_us: 2,
                delay_target: 0,
                ask_again: 0,
                nested: false,
            })
        };
        rep.evaluations += 1;
        seqio_verif::alloc::global_start();
        let r = execute(&job);
        let (_live, peak, allocs) = seqio_verif::alloc::global_stop();
        match &r {
            Err(_) => {
                rep.inconclusive.push("memory scenario panicked".into());
                return;
            }
            Ok(Done::Mock(res, _)) => {
                let ok = matches!(&res.ret, Ok(seen) if seen.lean_sets == n && seen.sets.is_empty() && seen.end_seen);
                if !ok {
                    rep.inconclusive.push(format!("memory scenario did not deliver its {} sets cleanly", n));
                    return;
                }
                rep.add("sets_received", n as u64);
            }
            Ok(Done::Real(res, _)) => {
                let ok = res.ret.is_ok() && res.seen.lean_recs == n * 10 && res.seen.recs.is_empty();
                if !ok {
                    rep.inconclusive.push(format!("memory scenario did not deliver its {} records cleanly", n * 10));
                    return;
                }
                rep.add("records_received", (n * 10) as u64);
            }
        }
        peaks.push((n, peak, allocs));
        let mut h = Fnv::new();
        h.u64(n as u64).u64(threads as u64).u64(queue as u64).u64(real as u64).u64(ctx.shard);
        rep.nontrivial.insert(h.finish());
    }
    pipe::LOG_ON.store(true, Ordering::SeqCst);
    let (n1, p1, _) = peaks[0];
    let (n2, p2, _) = peaks[1];
    let reader_name = if !real {
        "mock".to_string()
    } else {
        format!("{} via {:?}", if ctx.shard % 4 == 3 { "fasta (1-6 lines per record)" } else { "fastq" }, [Api::PerRecordInit, Api::PerRecord, Api::ReadParallel, Api::ParallelRecords][((ctx.shard / 4 + ctx.seed) % 4) as usize])
    };
    rep.map("memory_pair_reader", &reader_name);
    rep.sample(json!({"mode": "memory", "reader": reader_name, "threads": threads, "queue": queue,
        "batches_small": n1, "peak_bytes_small": p1, "batches_large": n2, "peak_bytes_large": p2}));
    rep.count("memory_pairs");
    rep.max("max_peak_ratio_percent", (p2 * 100 / p1.max(1)) as u64);
    if p2 > p1 + p1 / 4 + 8 * 1024 {
        rep.violation(
            "memory-grows-with-input",
            format!(
                "peak live heap {} bytes for {} batches but {} bytes for {} batches (threads {}, queue {})",
                p1, n1, p2, n2, threads, queue
            ),
            ctx.replay_json(0),
        );
    }
}
